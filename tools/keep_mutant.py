#!/venv/bin/python
"""Dev tool: file a confirmed seeded defect under /verif/seeded/<id>/.
usage: tools/keep_mutant.py <id> <worktree> <property> "<caught by ...>" "<what I ran>"
"""
import json, os, shutil, sys
mid, wt, prop, caught, ran = sys.argv[1:6]
d = f"/verif/seeded/{mid}"
os.makedirs(d, exist_ok=True)
shutil.copy(f"{wt}/patch.diff", f"{d}/patch.diff")
shutil.copy(f"{wt}/demo.py", f"{d}/demo.py")
try:
    agent = json.load(open(f"{wt}/meta.json"))
except Exception as e:  # noqa: BLE001
    agent = {"note": f"agent meta.json unreadable: {e}"}
meta = {"id": mid, "breaks_property": prop, "summary": agent.get("summary"), "needs_to_manifest": agent.get("needs"),
        "agent_tests_run": agent.get("tests_run"), "confirmed_by_me": ran, "caught_by": caught,
        "source": "independent sub-agent given only the property text and a scratch worktree"}
json.dump(meta, open(f"{d}/meta.json", "w"), indent=1)
print("kept", d)
