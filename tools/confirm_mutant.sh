#!/bin/bash
# Dev tool: confirm a seeded defect delivered in a scratch worktree:
#  demo.py fails with the change and passes without it; the patch applies to a clean checkout;
#  the repository's own suite (BASELINE stable_pass) still passes with the change.
# usage: tools/confirm_mutant.sh /tmp/mut_C17_a [nosuite]
D="$1"
cd "$D" || exit 3
echo "== $D"
git diff --stat -- fairlearn | tail -1
( cd "$D" && timeout 900 /venv/bin/python demo.py > /tmp/confirm_demo_with.log 2>&1 ); with=$?
cp patch.diff /tmp/confirm_patch.diff
git apply -R /tmp/confirm_patch.diff || { echo "patch does not reverse-apply"; exit 3; }
( cd "$D" && timeout 900 /venv/bin/python demo.py > /tmp/confirm_demo_without.log 2>&1 ); without=$?
git apply /tmp/confirm_patch.diff || { echo "patch does not re-apply"; exit 3; }
echo "demo with change: exit=$with ($(tail -1 /tmp/confirm_demo_with.log | cut -c1-160))"
echo "demo without change: exit=$without ($(tail -1 /tmp/confirm_demo_without.log | cut -c1-160))"
if [ "$2" != "nosuite" ]; then
  /verif/tools/suite.sh "$D" /tmp/confirm_suite_$(basename $D) | tail -3
fi
