#!/bin/bash
# Dev tool: re-run the relevant quick checks against every filed seeded defect (scratch worktree per defect).
# usage: tools/recheck_seeded.sh [ids...]
cd /verif
ids="${@:-$(ls seeded)}"
for id in $ids; do
  prop=$(/venv/bin/python -c "import json;print(json.load(open('seeded/$id/meta.json'))['breaks_property'])")
  checks=$prop
  case $id in C09_a|C09_b) checks="C09,C19";; C10_d) checks="C10,C19";; esac
  echo "##### $id -> $checks"
  tools/mutate.py $checks --patch /verif/seeded/$id/patch.diff 2>&1 | grep -E "rc=|^VIOLATION" | cut -c1-160
done
