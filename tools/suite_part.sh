#!/bin/bash
# Dev tool: run only the given test paths of the repository's suite from a checkout directory (used when the
# machine is too loaded for the whole suite) and compare with BASELINE.json's stable_pass restricted to those paths.
#   tools/suite_part.sh <checkout dir> <log prefix> <test path>...
D="$1"; P="$2"; shift; shift
cd "$D" || exit 3
export OMP_NUM_THREADS=1 OMP_WAIT_POLICY=passive
rm -f ${P}.part*.log ${P}.part*.xml
i=0
for p in "$@"; do
  ( /venv/bin/python -m pytest -q -p no:cacheprovider --timeout=900 --continue-on-collection-errors --junitxml="${P}.part$i.xml" $p > "${P}.part$i.log" 2>&1; echo "exit=$?" >> "${P}.part$i.log" ) &
  i=$((i+1))
done
wait
/venv/bin/python - "$P" "$@" <<'PY'
import sys, glob, json, xml.etree.ElementTree as ET
P = sys.argv[1]; paths = [p.rstrip("/").replace("/", ".").removesuffix(".py") for p in sys.argv[2:]]
passed, failed = set(), set()
for fn in glob.glob(P + ".part*.xml"):
    for tc in ET.parse(fn).getroot().iter("testcase"):
        tid = (tc.get("classname") or "") + "::" + (tc.get("name") or "")
        if tc.find("failure") is not None or tc.find("error") is not None: failed.add(tid)
        elif tc.find("skipped") is not None: pass
        else: passed.add(tid)
passed -= failed
base = {t for t in json.load(open("/root/.vp/BASELINE.json"))["stable_pass"] if any(t.startswith(p) for p in paths)}
missing = sorted(base - passed)
print(f"paths={sys.argv[2:]} BASELINE stable_pass(in paths)={len(base)} passed_now={len(passed)} failed_now={len(failed)} baseline_not_passing={len(missing)}")
for m in missing[:20]: print("  NOT PASSING:", m, "(failed)" if m in failed else "(absent)")
PY
