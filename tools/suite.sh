#!/bin/bash
# Dev tool: run the repository's own test suite from a checkout directory, partitioned
# over parallel pytest processes (test ids contain object addresses, so xdist cannot be used).
#   tools/suite.sh <checkout dir> <log prefix>
D="$1"; P="$2"
cd "$D" || exit 3
export OMP_NUM_THREADS=2
parts=(
 "test/unit/reductions/exponentiated_gradient/test_exponentiatedgradient_arguments.py"
 "test/unit/reductions/exponentiated_gradient/test_exponentiatedgradient_smoke.py test/unit/reductions/exponentiated_gradient/test_control_features.py test/unit/reductions/exponentiated_gradient/test_lagrangian.py test/unit/reductions/exponentiated_gradient/test_pickle.py test/unit/reductions/exponentiated_gradient/test_utilities.py"
 "test/unit/reductions/grid_search/test_grid_search_arguments.py"
 "test/unit/reductions/grid_search/test_grid_generator.py test/unit/reductions/grid_search/test_grid_search_demographicparity.py test/unit/reductions/grid_search/test_grid_search_regression.py test/unit/reductions/grid_search/test_pickle.py test/unit/reductions/moments test/unit/reductions/test_smoke.py"
 "test/unit/metrics"
 "test/unit/postprocessing"
 "test/unit/adversarial test/unit/preprocessing test/unit/utils test/unit/datasets test/unit/test_random_state.py test/unit/test_show_versions.py test/install"
)
i=0
for p in "${parts[@]}"; do
  ( /venv/bin/python -m pytest -q -p no:cacheprovider --timeout=900 --continue-on-collection-errors $p > "${P}.part$i.log" 2>&1; echo "exit=$?" >> "${P}.part$i.log" ) &
  i=$((i+1))
done
wait
for f in ${P}.part*.log; do echo "$f: $(tail -2 $f | tr '\n' ' ')"; done
