#!/bin/bash
# Dev tool: run the repository's own test suite from a checkout directory, partitioned
# over parallel pytest processes (test ids contain object addresses, so xdist cannot be used),
# and compare the passed set with BASELINE.json's stable_pass.
#   tools/suite.sh <checkout dir> <log prefix>
D="$1"; P="$2"
cd "$D" || exit 3
export OMP_NUM_THREADS=1 OMP_WAIT_POLICY=passive
rm -f ${P}.part*.log ${P}.part*.xml
parts=(
 "test/unit/reductions/exponentiated_gradient/test_exponentiatedgradient_arguments.py"
 "test/unit/reductions/exponentiated_gradient/test_exponentiatedgradient_smoke.py test/unit/reductions/exponentiated_gradient/test_control_features.py test/unit/reductions/exponentiated_gradient/test_lagrangian.py test/unit/reductions/exponentiated_gradient/test_pickle.py test/unit/reductions/exponentiated_gradient/test_utilities.py"
 "test/unit/reductions/grid_search/test_grid_search_arguments.py"
 "test/unit/reductions/grid_search/test_grid_generator.py test/unit/reductions/grid_search/test_grid_search_demographicparity.py test/unit/reductions/grid_search/test_grid_search_regression.py test/unit/reductions/grid_search/test_pickle.py test/unit/reductions/moments test/unit/reductions/test_smoke.py"
 "test/unit/metrics"
 "test/unit/postprocessing"
 "test/unit/adversarial test/unit/preprocessing test/unit/utils test/unit/datasets test/unit/test_random_state.py test/unit/test_show_versions.py test/install"
)
i=0
for p in "${parts[@]}"; do
  ( /venv/bin/python -m pytest -q -p no:cacheprovider --timeout=900 --continue-on-collection-errors --junitxml="${P}.part$i.xml" $p > "${P}.part$i.log" 2>&1; echo "exit=$?" >> "${P}.part$i.log" ) &
  i=$((i+1))
done
wait
for f in ${P}.part*.log; do echo "$f: $(tail -2 $f | tr '\n' ' ')"; done
/venv/bin/python - "$P" <<'PY'
import sys, glob, json, xml.etree.ElementTree as ET
P = sys.argv[1]
passed, failed = set(), set()
for fn in glob.glob(P + ".part*.xml"):
    for tc in ET.parse(fn).getroot().iter("testcase"):
        tid = (tc.get("classname") or "") + "::" + (tc.get("name") or "")
        if tc.find("failure") is not None or tc.find("error") is not None: failed.add(tid)
        elif tc.find("skipped") is not None: pass
        else: passed.add(tid)
passed -= failed
base = set(json.load(open("/root/.vp/BASELINE.json"))["stable_pass"])
missing = sorted(base - passed)
print(f"BASELINE stable_pass={len(base)} passed_now={len(passed)} failed_now={len(failed)} baseline_not_passing={len(missing)}")
for m in missing[:40]: print("  NOT PASSING:", m, "(failed)" if m in failed else "(absent)")
PY
