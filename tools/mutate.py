#!/venv/bin/python
"""Development tool: apply a one-line source mutation (or a patch file) to a *scratch worktree*
of /repo (under /tmp, removed afterwards), and run quick checks against it through the
VERIF_REPO override.  /repo and /verif/evidence are never touched.

  tools/mutate.py C17 [--runs N] -- fairlearn/adversarial/_adversarial_mitigation.py 'OLD' 'NEW'
  tools/mutate.py C17,C19 [--runs N] --patch /path/to/patch.diff
"""
import os
import subprocess
import sys

REPO = "/repo"


def main():
    args = sys.argv[1:]
    checks = args[0].split(",")
    rest = args[1:]
    extra = []
    if "--runs" in rest:
        i = rest.index("--runs")
        extra = ["--runs", rest[i + 1]]
        rest = rest[:i] + rest[i + 2:]
    wt = f"/tmp/wt_mut_{os.getpid()}"
    subprocess.run(["git", "-C", REPO, "worktree", "add", "-q", "--detach", wt, "HEAD"], check=True)
    try:
        if rest[0] == "--patch":
            subprocess.run(["git", "-C", wt, "apply", rest[1]], check=True)
        else:
            assert rest[0] == "--"
            path, old, new = rest[1:4]
            full = f"{wt}/{path}"
            s = open(full).read()
            if s.count(old) != 1:
                print(f"pattern occurs {s.count(old)} times, need exactly 1")
                return 3
            open(full, "w").write(s.replace(old, new))
        env = dict(os.environ, VERIF_REPO=wt, VERIF_EVIDENCE_DIR="/tmp/mut_evidence", VERIF_REPLAY_DIR=f"/tmp/mut_replays/{os.getpid()}")
        for c in checks:
            p = subprocess.run(["/venv/bin/python", "/verif/run_check.py", c, "--tier", "quick"] + extra,
                               capture_output=True, text=True, cwd="/verif", env=env)
            tail = [l[:500] for l in p.stdout.splitlines() if l.startswith(("VIOLATION", "HARNESS", "violation", "property=", "KNOWN"))]
            print(f"--- {c}: rc={p.returncode}")
            print("\n".join(tail[-8:]))
            if p.returncode not in (0, 1):
                print(p.stdout[-1500:], p.stderr[-1500:])
        return 0
    finally:
        subprocess.run(["git", "-C", REPO, "worktree", "remove", "--force", wt], check=False)


if __name__ == "__main__":
    sys.exit(main())
