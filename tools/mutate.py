#!/venv/bin/python
"""Development tool: apply a one-line source mutation (or a patch file) to /repo,
run quick checks, and ALWAYS revert (git checkout) afterwards.

  tools/mutate.py C17 -- fairlearn/adversarial/_adversarial_mitigation.py 'OLD' 'NEW'
  tools/mutate.py C17,C19 --patch /path/to/patch.diff
"""
import subprocess
import sys

REPO = "/repo"


def main():
    args = sys.argv[1:]
    checks = args[0].split(",")
    rest = args[1:]
    extra = []
    if "--runs" in rest:
        i = rest.index("--runs")
        extra = ["--runs", rest[i + 1]]
        rest = rest[:i] + rest[i + 2:]
    dirty = subprocess.run(["git", "-C", REPO, "status", "--porcelain", "--untracked-files=no"], capture_output=True, text=True).stdout.strip()
    if dirty:
        print("refusing: /repo has uncommitted changes:\n" + dirty)
        return 3
    try:
        if rest[0] == "--patch":
            subprocess.run(["git", "-C", REPO, "apply", rest[1]], check=True)
        else:
            assert rest[0] == "--"
            path, old, new = rest[1:4]
            full = f"{REPO}/{path}"
            s = open(full).read()
            if s.count(old) != 1:
                print(f"pattern occurs {s.count(old)} times, need exactly 1")
                return 3
            open(full, "w").write(s.replace(old, new))
        rcs = {}
        for c in checks:
            p = subprocess.run(["/venv/bin/python", "/verif/run_check.py", c, "--tier", "quick"] + extra,
                               capture_output=True, text=True, cwd="/verif")
            tail = [l for l in p.stdout.splitlines() if l.startswith(("VIOLATION", "HARNESS", "violation", "property=", "KNOWN"))]
            print(f"--- {c}: rc={p.returncode}")
            print("\n".join(tail[-8:]))
            if p.returncode not in (0, 1):
                print(p.stdout[-1500:], p.stderr[-1500:])
            rcs[c] = p.returncode
        return 0
    finally:
        subprocess.run(["git", "-C", REPO, "checkout", "--", "."], check=True)
        # evidence/replays written during a mutant run are not evidence
        subprocess.run(["git", "-C", "/verif", "checkout", "--", "evidence"], check=False, capture_output=True)


if __name__ == "__main__":
    sys.exit(main())
