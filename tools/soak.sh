#!/bin/bash
# Dev tool: run every check's quick (or $TIER) command under several master seeds; evidence goes to a scratch dir.
# usage: tools/soak.sh "1 2 3" [quick|thorough] [checks...]
SEEDS="$1"; TIER="${2:-quick}"; shift; shift
CHECKS="${@:-C08 C09 C10 C17 C18 C19}"
export VERIF_EVIDENCE_DIR=/tmp/soak_evidence VERIF_REPLAY_DIR=/tmp/soak_replays
for s in $SEEDS; do for c in $CHECKS; do
  out=$(VERIF_SEED=$s /venv/bin/python run_check.py $c --tier $TIER 2>&1); rc=$?
  echo "seed=$s $c rc=$rc $(echo "$out" | grep -E '^property=' | tail -1)"
  if [ $rc -ne 0 ]; then echo "$out" | grep -E "^violation|VIOLATION|HARNESS" | cut -c1-500; fi
done; done
