#!/bin/bash
# Dev tool: continuous background soak - thorough tier under successive master seeds, 8 workers.
# usage: tools/soak_thorough.sh <first seed> <count>
export VERIF_EVIDENCE_DIR=/tmp/soakt_evidence VERIF_REPLAY_DIR=/tmp/soakt_replays VERIF_WORKERS=8
s0=$1; n=$2
for ((s=s0; s<s0+n; s++)); do for c in C08 C09 C10 C17 C18 C19; do
  out=$(VERIF_SEED=$s /venv/bin/python run_check.py $c --tier thorough 2>&1); rc=$?
  echo "seed=$s $c rc=$rc $(echo "$out" | grep -E '^property=' | tail -1)"
  if [ $rc -ne 0 ]; then echo "$out" | grep -E "^violation|VIOLATION|HARNESS" | cut -c1-500; fi
done; done
