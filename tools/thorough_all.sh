#!/bin/bash
# Dev tool: run every check's thorough command once (evidence/replays go to scratch dirs).
export VERIF_EVIDENCE_DIR=/tmp/thorough_evidence VERIF_REPLAY_DIR=/tmp/thorough_replays
for c in ${@:-C17 C19 C18 C10 C09 C08}; do
  out=$(/venv/bin/python run_check.py $c --tier thorough 2>&1); rc=$?
  echo "$c rc=$rc $(echo "$out" | grep -E '^property=' | tail -1)"
  echo "$out" | grep -E "^violation|VIOLATION|HARNESS|KNOWN" | cut -c1-400
done
