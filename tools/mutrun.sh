#!/bin/bash
# Dev tool: run quick checks against a scratch checkout holding a seeded defect, without touching /repo
# or /verif/evidence.   tools/mutrun.sh <checkout dir> C17[,C19] [extra run_check args]
D="$1"; shift; CH="$1"; shift
export VERIF_REPO="$D" VERIF_EVIDENCE_DIR=/tmp/mut_evidence VERIF_REPLAY_DIR=/tmp/mut_replays/$(basename $D)
for c in ${CH//,/ }; do
  /venv/bin/python /verif/run_check.py $c --tier quick "$@" 2>&1 | grep -E "^violation|^VIOLATION|^HARNESS|^property=|^KNOWN" | cut -c1-400
done
