#!/venv/bin/python
"""Dev tool: execute single run indices in-process with full tracebacks.  tools/one.py C18 0 1 2"""
import sys, os, json, warnings, logging
sys.path.insert(0, "/verif"); os.chdir("/verif")
if os.environ.get("VERIF_REPO"): sys.path.insert(0, os.environ["VERIF_REPO"])
warnings.filterwarnings("ignore")
logging.getLogger("fairlearn").addHandler(logging.NullHandler()); logging.getLogger("fairlearn").propagate = False
from sim import kernel
cid = sys.argv[1]; tier = os.environ.get("VERIF_TIER", "quick")
master = int(os.environ.get("VERIF_SEED", kernel.DEFAULT_SEED[tier]))
chk = kernel.load_check(cid); kernel._worker_init()
for a in sys.argv[2:]:
    i = int(a)
    plan = chk.gen_plan(kernel.derive_seed(master, cid, i), i, tier)
    plan.update(property=cid, seed=kernel.derive_seed(master, cid, i), index=i, tier=tier)
    r = kernel.execute_plan(chk, plan)
    print(i, json.dumps({k: r[k] for k in ("failures", "known_hits", "faults", "probes", "trivial", "ops")}, indent=1)[:3000])
