#!/venv/bin/python
"""CLI: run_check.py <id> --tier quick|thorough | --replay <file>

exit 0  property held on everything explored (KNOWN-FINDING lines allowed)
exit 1  + "VIOLATION property=<id> replay=<path>"
exit 2  + "HARNESS-ERROR ..." (timeouts, non-reproducible failures, reference-model
        inconsistencies) - never silently 0
"""
import argparse
import json
import os
import sys

HERE = os.path.dirname(os.path.abspath(__file__))


def _reexec():
    """Pin hash seed and BLAS threads; re-exec once so they take effect."""
    if os.environ.get("VERIF_NO_REEXEC") == "1":
        return
    want = {"PYTHONHASHSEED": "0", "OMP_NUM_THREADS": "1", "MKL_NUM_THREADS": "1",
            "OPENBLAS_NUM_THREADS": "1", "PYTHONDONTWRITEBYTECODE": "1"}
    if all(os.environ.get(k) == v for k, v in want.items()):
        return
    env = dict(os.environ)
    env.update(want)
    env["VERIF_NO_REEXEC"] = "1"
    os.execve(sys.executable, [sys.executable, os.path.abspath(__file__)] + sys.argv[1:], env)


def main():
    _reexec()
    if HERE not in sys.path:
        sys.path.insert(0, HERE)
    os.chdir(HERE)
    # development only: point the checks at another checkout of the repository (a scratch
    # worktree holding a seeded defect).  The registered commands never set this.
    if os.environ.get("VERIF_REPO"):
        sys.path.insert(0, os.environ["VERIF_REPO"])
    import warnings

    warnings.filterwarnings("ignore")
    import logging

    _fl = logging.getLogger("fairlearn")
    _fl.addHandler(logging.NullHandler())
    _fl.propagate = False
    ap = argparse.ArgumentParser()
    ap.add_argument("prop")
    ap.add_argument("--tier", default=os.environ.get("VERIF_TIER", "quick"), choices=["quick", "thorough"])
    ap.add_argument("--replay")
    ap.add_argument("--exec-plans", help="internal: read a JSON list of plans from this file ('-' = stdin)")
    ap.add_argument("--seed", type=int, default=None)
    ap.add_argument("--runs", type=int, default=None, help="override the number of runs of the tier")
    ap.add_argument("--workers", type=int, default=None)
    args = ap.parse_args()

    from sim import kernel

    if args.exec_plans:
        plans = json.load(sys.stdin if args.exec_plans == "-" else open(args.exec_plans))
        kernel._worker_init()
        out = kernel._worker_plans((args.prop, plans))
        slim = [{k: v for k, v in r.items() if k in ("digest", "failures", "harness_error", "known_hits", "obs", "events_head", "faults", "n_events")} for r in out]
        print("RESULTS " + json.dumps(slim))
        return 0
    if args.replay:
        return kernel.replay(args.prop, args.replay)
    seed = args.seed
    if seed is None and os.environ.get("VERIF_SEED"):
        seed = int(os.environ["VERIF_SEED"])
    if args.runs is not None:
        chk = kernel.load_check(args.prop)
        chk.TIERS[args.tier]["runs"] = args.runs
    try:
        return kernel.drive(args.prop, args.tier, seed, workers=args.workers)
    except kernel.HarnessError as e:
        print(f"HARNESS-ERROR property={args.prop} {type(e).__name__}: {e}", flush=True)
        return 2


if __name__ == "__main__":
    sys.exit(main())
