"""Simulation kernel: seeds, plans, run context (event log, decisions, clock),
batch runner, shrinker, replay, known-finding matching, evidence writer,
determinism self-test.

One integer decides everything: run i of a batch uses
seed_i = H(VERIF_SEED, property, i); a *plan* (plain JSON) is generated from
seed_i before anything runs and executing a plan draws no further random
numbers.  A plan file alone reproduces an execution.
"""

from __future__ import annotations

import contextlib
import faulthandler
import hashlib
import json
import math
import os
import random
import signal
import subprocess
import sys
import time as _time_module


class _RealTime:
    """The real clock functions, captured at import time (the simulator rebinds the public ones during a run)."""

    perf_counter = staticmethod(_time_module.perf_counter)
    monotonic = staticmethod(_time_module.monotonic)
    time = staticmethod(_time_module.time)


_real_time = _RealTime
import traceback
from collections import Counter
from concurrent.futures import ProcessPoolExecutor, wait, FIRST_COMPLETED
import multiprocessing as mp

VERIF_DIR = os.path.dirname(os.path.dirname(os.path.abspath(__file__)))
REPO_DIR = os.environ.get("VERIF_REPO", "/repo")
PY = sys.executable

DEFAULT_SEED = {"quick": 20261001, "thorough": 20261002}
RUN_WALL_CAP_S = float(os.environ.get("VERIF_RUN_CAP_S", "90"))  # per run; a timeout is a harness error, never a pass
MAX_EVENTS_KEPT = 400


class HarnessError(BaseException):
    """Raised by harness/stub/oracle code for *its own* inconsistencies.

    Derives from BaseException so that ``except Exception`` in the code under
    test (or in the per-operation wrappers) never mistakes it for a failure of
    the system under test.
    """


class HarnessTimeout(HarnessError):
    pass


# --------------------------------------------------------------------------
# seeds


def derive_seed(master: int, prop: str, index: int) -> int:
    h = hashlib.sha256(f"{master}:{prop}:{index}".encode()).digest()
    return int.from_bytes(h[:8], "big")


def rng_for(master: int, prop: str, index: int) -> random.Random:
    return random.Random(derive_seed(master, prop, index))


# --------------------------------------------------------------------------
# canonical JSON for events / digests


def _round12(x: float):
    if x != x:
        return "nan"
    if x in (float("inf"), float("-inf")):
        return "inf" if x > 0 else "-inf"
    if x == 0:
        return 0.0
    return float(f"{x:.12g}")


def canon(o):
    """Convert to a JSON-able canonical form (floats rounded to 12 sig. digits)."""
    import numpy as np

    if o is None or isinstance(o, (bool, str)):
        return o
    if isinstance(o, (int,)):
        return o
    if isinstance(o, float):
        return _round12(o)
    if isinstance(o, np.generic):
        return canon(o.item())
    if isinstance(o, np.ndarray):
        return [canon(v) for v in o.tolist()]
    if isinstance(o, dict):
        return {str(k): canon(v) for k, v in o.items()}
    if isinstance(o, (list, tuple)):
        return [canon(v) for v in o]
    if isinstance(o, (set, frozenset)):
        return sorted((canon(v) for v in o), key=lambda v: json.dumps(v, sort_keys=True))
    try:
        import pandas as pd

        if isinstance(o, pd.Series):
            return {"index": [canon(_idx(i)) for i in o.index], "values": canon(o.to_numpy())}
        if isinstance(o, pd.DataFrame):
            return {
                "index": [canon(_idx(i)) for i in o.index],
                "columns": [canon(_idx(c)) for c in o.columns],
                "values": canon(o.to_numpy()),
            }
        if isinstance(o, pd.Index):
            return [canon(_idx(i)) for i in o]
    except ImportError:  # pragma: no cover
        pass
    try:
        import torch

        if isinstance(o, torch.Tensor):
            return canon(o.detach().cpu().numpy())
    except ImportError:  # pragma: no cover
        pass
    return repr(o)


def _idx(i):
    if isinstance(i, tuple):
        return [canon(x) for x in i]
    return i


def jdump(o) -> str:
    return json.dumps(canon(o), sort_keys=True, separators=(",", ":"))


# --------------------------------------------------------------------------
# run context

_CURRENT = None


def current() -> "RunContext":
    if _CURRENT is None:
        raise HarnessError("no simulation run is active")
    return _CURRENT


class DecisionList:
    """A pre-drawn list of decisions for one decision site.

    Consumption is counted; a site that exhausts its list takes ``default``.
    """

    def __init__(self, items, default):
        self.items = list(items or [])
        self.default = default
        self.pos = 0

    def next(self):
        if self.pos < len(self.items):
            v = self.items[self.pos]
        else:
            v = self.default
        self.pos += 1
        return v


class SimClock:
    """Replacement for ``time.time`` in the modules that read a clock.

    Every read consumes one planned decision: ["fwd", d] | ["back", d] | ["stall", 0].
    """

    START = 1_790_000_000.0

    def __init__(self, ctx, decisions):
        self.ctx = ctx
        self.dl = DecisionList(decisions, ["fwd", 1e-3])
        self.now = self.START
        self.reads = 0
        self.force_stall = False

    def __call__(self):
        self.reads += 1
        kind, delta = self.dl.next()
        if self.force_stall:
            kind, delta = "stall", 0.0
        if kind == "fwd":
            self.now += delta
        elif kind == "back":
            self.now -= delta
        elif kind == "stall":
            delta = 0.0
        else:
            raise HarnessError(f"bad clock decision {kind}")
        self.ctx.faults["clock_" + kind] += 1
        self.ctx.sim_seconds += abs(delta)
        return self.now


CLOCK_MODULES = (
    "fairlearn.reductions._exponentiated_gradient._lagrangian",
    "fairlearn.reductions._grid_search.grid_search",
    "fairlearn.adversarial._adversarial_mitigation",
)


class RunContext:
    def __init__(self, plan: dict, known: list | None = None):
        self.plan = plan
        self.known = known or []
        self.seq = 0
        self.events = []
        self._hash = hashlib.sha256()
        self.faults = Counter()
        self.probes = Counter()
        self.failures = []
        self.known_hits = Counter()
        self.sim_seconds = 0.0
        self.ops = 0
        self.state_sigs = set()
        self.transitions = set()
        self.clock = SimClock(self, plan.get("clock"))
        self.trivial_reason = None
        self.obs = {}      # exported with the run summary (canonical JSON)
        self.scratch = {}  # per-run objects of the check, never exported
        # seam state (see seams.py)
        self.ties = DecisionList(plan.get("ties"), 0)
        self.oracle_log = []
        self.predict_log = []
        self.log_predicts = False
        self.engine_inits = 0
        self.train_steps = []
        self.losses = DecisionList(plan.get("losses"), [0.5, 0.5])
        self.eval_table = {}
        self.callback_log = []
        self.spy_log = []

    # -- event log ---------------------------------------------------------
    def event(self, kind: str, **data) -> int:
        self.seq += 1
        rec = {"seq": self.seq, "kind": kind}
        rec.update(canon(data))
        self._hash.update(json.dumps(rec, sort_keys=True, separators=(",", ":")).encode())
        if len(self.events) < MAX_EVENTS_KEPT:
            self.events.append(rec)
        return self.seq

    def digest(self) -> str:
        return self._hash.hexdigest()

    # -- counters ------------------------------------------------------------
    def fault(self, kind: str, n: int = 1):
        self.faults[kind] += n

    def probe(self, name: str, n: int = 1):
        self.probes[name] += n

    def state(self, sig):
        self.state_sigs.add(jdump(sig))

    def transition(self, sig):
        self.transitions.add(jdump(sig))

    def trivial(self, reason: str):
        self.trivial_reason = reason
        self.probe("trivial:" + reason)

    # -- failures ------------------------------------------------------------
    def fail(self, cls: str, detail: str, sig: dict | None = None) -> bool:
        """Record a property failure.  Returns True if it matches a known finding."""
        sig = dict(sig or {})
        sig.setdefault("cls", cls)
        fid = match_known(self.known, self.plan.get("property"), sig)
        self.event("failure", cls=cls, known=fid)
        if fid is not None:
            self.known_hits[fid] += 1
            return True
        if len(self.failures) < 20:
            self.failures.append({"cls": cls, "detail": detail[:2000], "sig": canon(sig), "seq": self.seq})
        return False

    # -- calling the system under test -----------------------------------------
    def call(self, fn, *a, **kw):
        """Call code under test.  Returns (True, value) or (False, exc, site)."""
        try:
            return True, fn(*a, **kw), None
        except HarnessError:
            raise
        except Exception as e:  # noqa: BLE001 - the system under test failed
            return False, e, exc_site(e)

    # -- clock seam ------------------------------------------------------------
    @contextlib.contextmanager
    def clock_installed(self):
        """Every clock the library could read is the simulated one: the `time` name imported by the three modules
        that read a clock today, any other fairlearn module attribute bound to a real clock function, and the
        clock functions of the `time` module itself (for code that calls time.time() / perf_counter() / monotonic())."""
        import importlib

        real = {_RealTime.time, _RealTime.perf_counter, _RealTime.monotonic}
        saved = []
        for name in CLOCK_MODULES:
            mod = importlib.import_module(name)
            saved.append((mod, "time", getattr(mod, "time")))
            mod.time = self.clock
        for name, mod in list(sys.modules.items()):
            if mod is None or not name.startswith("fairlearn"):
                continue
            for attr, val in list(vars(mod).items()):
                try:
                    if val in real:
                        saved.append((mod, attr, val))
                        setattr(mod, attr, self.clock)
                except TypeError:
                    continue
        for attr in ("time", "perf_counter", "monotonic"):
            saved.append((_time_module, attr, getattr(_time_module, attr)))
            setattr(_time_module, attr, self.clock)
        try:
            yield self.clock
        finally:
            for mod, attr, t in reversed(saved):
                setattr(mod, attr, t)


def exc_site(e: BaseException) -> str:
    """Innermost frame inside the fairlearn package (file:function)."""
    site = None
    for fs in traceback.extract_tb(e.__traceback__):
        fn = fs.filename.replace("\\", "/")
        if "/fairlearn/" in fn:
            site = f"{fn.split('/fairlearn/', 1)[1]}:{fs.name}"
    if site is None:
        tb = traceback.extract_tb(e.__traceback__)
        if tb:
            site = f"{os.path.basename(tb[-1].filename)}:{tb[-1].name}"
    return site or "?"


# --------------------------------------------------------------------------
# known findings


def load_known(prop: str) -> list:
    path = os.path.join(VERIF_DIR, "known_findings.json")
    if not os.path.exists(path):
        return []
    with open(path) as f:
        data = json.load(f)
    return [k for k in data.get("known", []) if k.get("property") == prop]


def match_known(known: list, prop, sig: dict):
    """A failure matches a listed finding iff every key of the stored signature
    is present in the failure's signature with an equal value."""
    for k in known:
        want = k["signature"]
        if all(canon(sig.get(key)) == canon(val) for key, val in want.items()):
            return k["id"]
    return None


# --------------------------------------------------------------------------
# executing one plan


def execute_plan(check, plan: dict, known=None) -> dict:
    """Run one plan under a fresh context; returns a compact JSON-able summary."""
    global _CURRENT
    ctx = RunContext(plan, load_known(plan["property"]) if known is None else known)
    _CURRENT = ctx
    t0 = _real_time.perf_counter()
    _ambient_reset(plan.get("seed", 0))
    from . import seams

    seams.reset_serials()
    try:
        check.execute(plan, ctx)
    finally:
        _CURRENT = None
    wall = _real_time.perf_counter() - t0
    return {
        "index": plan.get("index"),
        "seed": plan.get("seed"),
        "digest": ctx.digest(),
        "failures": ctx.failures,
        "known_hits": dict(ctx.known_hits),
        "faults": dict(ctx.faults),
        "probes": dict(ctx.probes),
        "sim_seconds": ctx.sim_seconds,
        "ops": ctx.ops,
        "state_sigs": sorted(ctx.state_sigs),
        "transitions": sorted(ctx.transitions),
        "trivial": ctx.trivial_reason,
        "n_events": ctx.seq,
        "wall": wall,
        "events_head": ctx.events[:12],
        "obs": canon(ctx.obs),
    }


def _ambient_reset(seed: int):
    """Put the ambient (process-global) generators into a state that is a pure
    function of the plan, so a forked worker's history cannot leak into a run."""
    import numpy as np

    np.random.seed(seed % (2**32))
    random.seed(seed)
    try:
        import torch

        torch.manual_seed(seed % (2**63))
    except ImportError:  # pragma: no cover
        pass


def _alarm_handler(signum, frame):
    raise HarnessTimeout("run exceeded the per-run wall cap")


def _worker_init():
    os.environ.setdefault("OMP_NUM_THREADS", "1")
    try:
        import torch

        torch.set_num_threads(1)
    except Exception:  # noqa: BLE001
        pass
    signal.signal(signal.SIGALRM, _alarm_handler)


def _worker_chunk(args):
    check_id, master, tier, indices = args[:4]
    cap = args[4] if len(args) > 4 else RUN_WALL_CAP_S
    check = load_check(check_id)
    out = []
    for i in indices:
        plan = check.gen_plan(derive_seed(master, check_id, i), i, tier)
        plan["property"] = check_id
        plan["seed"] = derive_seed(master, check_id, i)
        plan["index"] = i
        plan["tier"] = tier
        faulthandler.dump_traceback_later(cap + 30, exit=True)
        signal.setitimer(signal.ITIMER_REAL, cap)
        try:
            res = execute_plan(check, plan)
        except HarnessError as e:
            res = {"index": i, "seed": plan["seed"], "harness_error": f"{type(e).__name__}: {e}",
                   "trace": traceback.format_exc()[-3000:], "timeout": isinstance(e, HarnessTimeout)}
        finally:
            signal.setitimer(signal.ITIMER_REAL, 0)
            faulthandler.cancel_dump_traceback_later()
        if res.get("failures") or res.get("harness_error"):
            res["plan"] = plan
        elif i < 3:
            res["plan"] = plan
        out.append(res)
    return out


def _worker_plans(args):
    """Execute explicit plans (used by the shrinker and determinism tests)."""
    check_id, plans = args
    check = load_check(check_id)
    out = []
    for plan in plans:
        signal.setitimer(signal.ITIMER_REAL, RUN_WALL_CAP_S)
        try:
            res = execute_plan(check, plan)
        except HarnessError as e:
            res = {"harness_error": f"{type(e).__name__}: {e}", "failures": []}
        except Exception as e:  # noqa: BLE001 - a mangled plan may break the harness itself
            res = {"harness_error": f"{type(e).__name__}: {e}", "failures": []}
        finally:
            signal.setitimer(signal.ITIMER_REAL, 0)
        out.append(res)
    return out


def load_check(check_id: str):
    import importlib

    names = {
        "C08": "checks.c08_expgrad",
        "C09": "checks.c09_gridsearch",
        "C10": "checks.c10_random_predict",
        "C17": "checks.c17_adversarial",
        "C18": "checks.c18_bootstrap",
        "C19": "checks.c19_lifecycle",
    }
    return importlib.import_module(names[check_id])


def make_pool(workers: int):
    return ProcessPoolExecutor(max_workers=workers, mp_context=mp.get_context("fork"),
                               initializer=_worker_init)


# --------------------------------------------------------------------------
# batch


class BatchResult:
    def __init__(self):
        self.results = []
        self.harness_errors = []
        self.failed = []  # results with failures (carry their plan)
        self.wall_capped = False
        self.timeouts_retried = 0  # runs that hit the per-run wall cap in the loaded pool and were re-run alone


def run_batch(check_id, tier, master, n_runs, workers, wall_cap_s, chunk=4, log=print) -> BatchResult:
    br = BatchResult()
    t0 = _real_time.monotonic()
    chunks = [list(range(s, min(s + chunk, n_runs))) for s in range(0, n_runs, chunk)]
    stop = False
    timed_out = []
    with make_pool(workers) as pool:
        pending = set()
        it = iter(chunks)
        exhausted = False

        def submit_more():
            nonlocal exhausted
            while not exhausted and not stop and len(pending) < workers * 2:
                try:
                    c = next(it)
                except StopIteration:
                    exhausted = True
                    break
                pending.add(pool.submit(_worker_chunk, (check_id, master, tier, c)))

        submit_more()
        while pending:
            done, pending_now = wait(pending, timeout=RUN_WALL_CAP_S * chunk + 120, return_when=FIRST_COMPLETED)
            if not done:
                raise HarnessError("worker pool stalled")
            pending = set(pending_now)
            for fut in done:
                try:
                    rs = fut.result()
                except Exception as e:  # noqa: BLE001 - BrokenProcessPool etc.
                    raise HarnessError(f"worker died: {type(e).__name__}: {e}")
                for r in rs:
                    if r.get("harness_error") and r.get("timeout"):
                        timed_out.append(r)  # re-run alone below: a loaded machine is not a hang
                    elif r.get("harness_error"):
                        br.harness_errors.append(r)
                        stop = True
                    else:
                        br.results.append(r)
                        if r["failures"]:
                            br.failed.append(r)
                            stop = True
            if _real_time.monotonic() - t0 > wall_cap_s and not stop:
                br.wall_capped = True
                stop = True
            submit_more()
    if timed_out:
        # A run that exceeded the per-run wall cap while 16 workers (and whatever else the machine runs) competed
        # for the cores is executed once more, two at a time, with four times the cap.  Same plan, same seed,
        # same decisions - only wall-clock time differs, which the simulated system never reads.  A second timeout
        # is a harness error (never a pass).
        log(f"re-running {len(timed_out)} run(s) that hit the {RUN_WALL_CAP_S}s per-run wall cap, alone, cap x4")
        with make_pool(2) as pool:
            futs = [pool.submit(_worker_chunk, (check_id, master, tier, [r["index"]], RUN_WALL_CAP_S * 4))
                    for r in timed_out[:8]]
            for fut in futs:
                try:
                    rs = fut.result(timeout=RUN_WALL_CAP_S * 4 * 8 + 120)
                except Exception as e:  # noqa: BLE001
                    raise HarnessError(f"worker died: {type(e).__name__}: {e}")
                for r in rs:
                    if r.get("harness_error"):
                        br.harness_errors.append(r)
                    else:
                        br.timeouts_retried += 1
                        br.results.append(r)
                        if r["failures"]:
                            br.failed.append(r)
        br.harness_errors.extend(timed_out[8:])
    br.results.sort(key=lambda r: r["index"])
    br.failed.sort(key=lambda r: r["index"])
    return br


# --------------------------------------------------------------------------
# fresh-interpreter execution (confirmation, replay, hash-seed determinism)


def run_plans_fresh(check_id: str, plans: list, hashseed: str = "12345", timeout=600) -> list:
    """Execute plans in a brand-new interpreter under another PYTHONHASHSEED."""
    env = dict(os.environ)
    env["PYTHONHASHSEED"] = hashseed
    env["VERIF_NO_REEXEC"] = "1"
    env["OMP_NUM_THREADS"] = "1"
    p = subprocess.run(
        [PY, os.path.join(VERIF_DIR, "run_check.py"), check_id, "--exec-plans", "-"],
        input=json.dumps(plans), capture_output=True, text=True, env=env, cwd=VERIF_DIR, timeout=timeout,
    )
    if p.returncode != 0:
        raise HarnessError(f"fresh interpreter failed rc={p.returncode}: {p.stderr[-2000:]}")
    line = [l for l in p.stdout.splitlines() if l.startswith("RESULTS ")]
    if not line:
        raise HarnessError("fresh interpreter printed no RESULTS line: " + p.stdout[-500:])
    return json.loads(line[-1][len("RESULTS "):])


# --------------------------------------------------------------------------
# shrinking


def failure_classes(res: dict) -> set:
    return {f["cls"] for f in res.get("failures", [])}


def shrink(check_id, check, plan, cls, workers=8, budget_s=150, log=print):
    """Greedy delta-debugging over the check's own candidate generator: keep a
    candidate only if the same violation class persists."""
    t0 = _real_time.monotonic()
    tried = 0
    visited = {jdump(plan)}
    accepted = 0
    with make_pool(workers) as pool:
        improved = True
        while improved and _real_time.monotonic() - t0 < budget_s and accepted < 80:
            improved = False
            cands = []
            seen = set()
            for c in check.shrink_candidates(plan):
                key = jdump(c)
                if key in seen or key in visited:
                    continue
                seen.add(key)
                visited.add(key)
                cands.append(c)
                if len(cands) >= 96:
                    break
            for s in range(0, len(cands), workers):
                grp = cands[s:s + workers]
                futs = [pool.submit(_worker_plans, (check_id, [c])) for c in grp]
                hit = None
                for c, f in zip(grp, futs):
                    try:
                        r = f.result(timeout=RUN_WALL_CAP_S + 60)[0]
                    except Exception:  # noqa: BLE001
                        continue
                    tried += 1
                    if hit is None and cls in failure_classes(r):
                        hit = c
                if hit is not None:
                    plan = hit
                    improved = True
                    accepted += 1
                    break
                if _real_time.monotonic() - t0 > budget_s:
                    break
    log(f"shrink: {tried} candidate executions, {_real_time.monotonic() - t0:.1f}s")
    return plan


# --------------------------------------------------------------------------
# top-level driver


def plan_size(plan) -> int:
    return len(jdump(plan))


def trim(o, maxlen=24):
    """Trim long lists for human-readable samples."""
    if isinstance(o, dict):
        return {k: trim(v, maxlen) for k, v in o.items()}
    if isinstance(o, list):
        if len(o) > maxlen:
            return [trim(v, maxlen) for v in o[:maxlen]] + [f"... {len(o) - maxlen} more"]
        return [trim(v, maxlen) for v in o]
    return o


def drive(check_id: str, tier: str, master: int | None, workers: int | None = None, log=print) -> int:
    check = load_check(check_id)
    if master is None:
        master = DEFAULT_SEED[tier]
    workers = workers or int(os.environ.get("VERIF_WORKERS", "16"))
    cfg = check.TIERS[tier]
    log(f"VERIF_SEED={master} property={check_id} tier={tier} workers={workers} runs={cfg['runs']}")
    import fairlearn

    if not os.path.realpath(fairlearn.__file__).startswith(os.path.realpath(REPO_DIR) + "/"):
        raise HarnessError(f"fairlearn is imported from {fairlearn.__file__}, not from {REPO_DIR}")
    t0 = _real_time.monotonic()
    br = run_batch(check_id, tier, master, cfg["runs"], workers, cfg["wall_cap_s"], log=log)
    wall_batch = _real_time.monotonic() - t0
    rc = 0
    violations = []
    if br.harness_errors:
        for h in br.harness_errors[:3]:
            log(f"HARNESS-ERROR property={check_id} index={h['index']} seed={h['seed']} {h['harness_error']}")
            log(h.get("trace", ""))
        rc = 2
    # ---- violations: confirm, shrink, write replay ------------------------
    reported = set()
    for r in br.failed:
        for f in r["failures"]:
            cls = f["cls"]
            if cls in reported or len(reported) >= 3:
                continue
            reported.add(cls)
            plan = r["plan"]
            conf = run_plans_fresh(check_id, [plan], hashseed="0")[0]
            if cls not in failure_classes(conf):
                log(f"HARNESS-ERROR nondeterministic property={check_id} seed={plan['seed']} class={cls} "
                    f"did not reproduce in a fresh process")
                rc = 2
                continue
            small = shrink(check_id, check, plan, cls, workers=min(workers, 8), log=log)
            conf2 = run_plans_fresh(check_id, [small], hashseed="0")[0]
            if cls not in failure_classes(conf2):
                small = plan
                conf2 = conf
            ff = [x for x in conf2["failures"] if x["cls"] == cls][0]
            repdir = os.environ.get("VERIF_REPLAY_DIR", os.path.join(VERIF_DIR, "replays"))
            os.makedirs(repdir, exist_ok=True)
            path = os.path.join(repdir, f"{check_id}-{plan['seed']}-{_slug(cls)}.json")
            with open(path, "w") as fh:
                json.dump({"property": check_id, "seed": plan["seed"], "master_seed": master, "index": plan["index"],
                           "violation_class": cls, "first_failure": ff,
                           "trace": {"digest": conf2.get("digest"), "events": conf2.get("n_events"),
                                     "faults_fired": conf2.get("faults"), "first_events": conf2.get("events_head")},
                           "minimised_plan": small,
                           "original_plan": plan, "original_size": plan_size(plan), "minimised_size": plan_size(small)},
                          fh, indent=1)
            log(f"violation class={cls} seed={plan['seed']} detail={ff['detail'][:600]}")
            print(f"VIOLATION property={check_id} replay={path}", flush=True)
            violations.append(cls)
            rc = max(rc, 1)
    # ---- determinism self-test ------------------------------------------------
    det = determinism_selftest(check_id, tier, master, cfg, workers, br, log)
    if not det["ok"] and rc == 0:
        # (with a confirmed violation already reported, a nondeterministic system under test keeps exit 1)
        rc = 2
    # ---- known findings -------------------------------------------------------
    known_seen = Counter()
    for r in br.results:
        for k, v in r["known_hits"].items():
            known_seen[k] += v
    for k in load_known(check_id):
        if known_seen.get(k["id"]):
            print(f"KNOWN-FINDING: property={check_id} {k['id']} {k['what']} (seen {known_seen[k['id']]}x)", flush=True)
    # ---- evidence -----------------------------------------------------------
    wall = _real_time.monotonic() - t0
    try:
        write_evidence(check_id, check, tier, master, br, wall, wall_batch, det, known_seen, len(violations), workers)
    except HarnessError as e:
        log(f"evidence not written: {e}")
        if rc == 0:
            rc = 2
    if violations:
        rc = 1  # a confirmed, replayable violation decides the exit status, whatever else went wrong
    n = len(br.results)
    log(f"property={check_id} runs={n} wall={wall:.1f}s violations={len(violations)} "
        f"known={dict(known_seen)} capped={br.wall_capped} rc={rc}")
    if rc == 2:
        print(f"HARNESS-ERROR property={check_id} (see above)", flush=True)
    return rc


def _slug(s):
    return "".join(c if c.isalnum() else "_" for c in s)[:40]


def determinism_selftest(check_id, tier, master, cfg, workers, br, log):
    """Same seeds again in other worker processes and in a fresh interpreter under
    another PYTHONHASHSEED; event-log digests must agree."""
    k = cfg.get("det_seeds", 16)
    base = {r["index"]: r["digest"] for r in br.results}
    allidx = sorted(base)
    # spread the sample over the whole batch (the first indices are the stratified small cases only)
    step = max(1, len(allidx) // max(k, 1))
    idx = allidx[::step][:k]
    check = load_check(check_id)
    plans = []
    for i in idx:
        p = check.gen_plan(derive_seed(master, check_id, i), i, tier)
        p.update(property=check_id, seed=derive_seed(master, check_id, i), index=i, tier=tier)
        plans.append(p)
    mism = []
    worker_counts = [workers]
    # second execution in different worker processes (reversed order => other workers, other history)
    with make_pool(max(2, workers // 2)) as pool:
        futs = [pool.submit(_worker_plans, (check_id, [p])) for p in reversed(plans)]
        again = [f.result(timeout=RUN_WALL_CAP_S * 2)[0] for f in futs][::-1]
    worker_counts.append(max(2, workers // 2))
    for p, r in zip(plans, again):
        if r.get("digest") != base[p["index"]]:
            mism.append(("pool", p["index"]))
    if cfg.get("det_extra_workers"):
        with make_pool(cfg["det_extra_workers"]) as pool:
            futs = [pool.submit(_worker_plans, (check_id, [p])) for p in plans]
            again2 = [f.result(timeout=RUN_WALL_CAP_S * 2)[0] for f in futs]
        worker_counts.append(cfg["det_extra_workers"])
        for p, r in zip(plans, again2):
            if r.get("digest") != base[p["index"]]:
                mism.append((f"pool{cfg['det_extra_workers']}", p["index"]))
    fresh = run_plans_fresh(check_id, plans, hashseed="12345", timeout=900)
    for p, r in zip(plans, fresh):
        if r.get("digest") != base[p["index"]]:
            mism.append(("fresh_hashseed_12345", p["index"]))
    ok = not mism
    if not ok:
        log(f"HARNESS-ERROR nondeterministic property={check_id}: digests differ for {mism[:8]}")
    return {"ok": ok, "seeds_compared": len(plans), "executions_per_seed": 3 + (1 if cfg.get("det_extra_workers") else 0),
            "worker_counts": worker_counts, "hash_seeds": ["0", "12345"], "mismatches": [list(m) for m in mism]}


def write_evidence(check_id, check, tier, master, br, wall, wall_batch, det, known_seen, n_viol, workers):
    import jsonschema

    faults, probes = Counter(), Counter()
    sim_s = 0.0
    sigs, trans = set(), set()
    ops = 0
    nontrivial_runs = 0
    for r in br.results:
        faults.update(r["faults"])
        probes.update(r["probes"])
        sim_s += r["sim_seconds"]
        ops += r["ops"]
        trans.update(r["transitions"])
        fired = sum(r["faults"].values())
        if r["trivial"] is None and r["ops"] >= 1 and fired >= 1:
            nontrivial_runs += 1
            sigs.update(r["state_sigs"])
    n = len(br.results)
    samples = [trim({"plan": r["plan"], "digest": r["digest"], "faults_fired": r["faults"],
                     "first_events": r["events_head"][:6]})
               for r in br.results if r.get("plan") is not None and not r["failures"]][:3]
    if not samples and br.results:
        r = br.results[0]
        samples = [trim({"digest": r["digest"], "faults_fired": r["faults"], "first_events": r["events_head"][:6]})]
    ev = {
        "property_id": check_id,
        "tier": tier,
        "seed": int(master),
        "level": "exploration",
        "coverage": {
            "evaluations": n,
            "distinct_nontrivial": len(sigs),
            "rule": check.RULE,
            "samples": samples,
            "transitions": len(trans),
            "nontrivial_runs": nontrivial_runs,
            "operations_executed": ops,
            "runs_per_hour": round(n / max(wall_batch, 1e-9) * 3600),
            "seeds_per_hour": round(n / max(wall_batch, 1e-9) * 3600),
            "simulated_seconds": sim_s,
            "faults_fired": dict(sorted(faults.items())),
            "probes": dict(sorted(probes.items())),
            "components": check.COMPONENTS,
            "determinism_selftest": det,
            "known_findings_seen": dict(known_seen),
            "wall_capped": br.wall_capped,
            "timeouts_retried_alone": br.timeouts_retried,
            "workers": workers,
            "exhaustive": False,
        },
        "assumptions": check.ASSUMPTIONS,
        "wall_s": round(wall, 2),
        "violations": n_viol,
    }
    with open("/root/.vp/EVIDENCE.schema.json") as f:
        schema = json.load(f)
    try:
        jsonschema.validate(ev, schema)
    except jsonschema.ValidationError as e:
        raise HarnessError(f"evidence does not validate: {e.message}")
    evdir = os.environ.get("VERIF_EVIDENCE_DIR", os.path.join(VERIF_DIR, "evidence"))  # override: dev runs on mutants only
    os.makedirs(evdir, exist_ok=True)
    with open(os.path.join(evdir, f"{check_id}.json"), "w") as f:
        json.dump(ev, f, indent=1, sort_keys=True)


def replay(check_id: str, path: str, log=print) -> int:
    with open(path) as f:
        rep = json.load(f)
    check = load_check(check_id)
    _worker_init()
    plan = rep["minimised_plan"]
    res = execute_plan(check, plan)
    cls = rep["violation_class"]
    log(json.dumps({"digest": res["digest"], "failures": res["failures"]}, indent=1)[:6000])
    if cls in failure_classes(res):
        print(f"VIOLATION property={check_id} replay={path}", flush=True)
        return 1
    log(f"replay: violation class {cls} did not occur on this tree")
    return 0
