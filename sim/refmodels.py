"""Small executable reference models.  Nothing in this file calls fairlearn.

Moment values gamma_j(h), signed weights w_i(lambda), error, Lagrangian,
brute-force minimum over the enumerated hypothesis class, LP optimum over
distributions on the class.
"""

from __future__ import annotations

import itertools

import numpy as np

PARITY = ("DP", "TPR", "FPR", "EO", "ERP")


def key(v):
    if isinstance(v, (np.floating, float, np.integer, int)):
        return float(v)
    return str(v)


class ParityRef:
    """First-principles model of a parity moment on a loaded data set.

    Constraint ids are tuples (sign, event, group) with event in
    {"all", "label=0", "label=1"}; for every (event, group) pair that occurs:
        '+' : r * mean_{event,group}(u) - mean_event(u)
        '-' : r * mean_event(u) - mean_{event,group}(u)
    u = prediction (error indicator |h - y| for error-rate parity).
    """

    def __init__(self, kind, y, groups, ratio=1.0, bound=0.01):
        assert kind in PARITY
        self.kind = kind
        self.y = np.asarray(y, dtype=float)
        self.groups = [str(g) for g in groups]
        self.n = len(self.y)
        self.ratio = float(ratio)
        self.bound = float(bound)
        if kind in ("DP", "ERP"):
            ev = ["all"] * self.n
        elif kind == "TPR":
            ev = ["label=1" if t == 1 else None for t in self.y]
        elif kind == "FPR":
            ev = ["label=0" if t == 0 else None for t in self.y]
        else:
            ev = [f"label={int(t)}" for t in self.y]
        self.event = ev
        pairs = sorted({(e, g) for e, g in zip(ev, self.groups) if e is not None})
        self.pairs = pairs
        self.ids = [("+", e, g) for e, g in pairs] + [("-", e, g) for e, g in pairs]
        self.mask_e = {e: np.array([x == e for x in ev]) for e in {p[0] for p in pairs}}
        self.mask_eg = {(e, g): np.array([x == e and h == g for x, h in zip(ev, self.groups)]) for e, g in pairs}

    # utility of a (soft) prediction vector
    def u(self, pred):
        pred = np.asarray(pred, dtype=float)
        if self.kind == "ERP":
            return self.y * (1 - pred) + (1 - self.y) * pred
        return pred

    def gamma(self, pred):
        u = self.u(pred)
        out = {}
        for e, g in self.pairs:
            me, meg = u[self.mask_e[e]].mean(), u[self.mask_eg[(e, g)]].mean()
            out[("+", e, g)] = self.ratio * meg - me
            out[("-", e, g)] = self.ratio * me - meg
        return out

    def gamma_vec(self, pred):
        g = self.gamma(pred)
        return np.array([g[i] for i in self.ids])

    def error(self, pred, fp_cost=1.0, fn_cost=1.0):
        pred = np.asarray(pred, dtype=float)
        return float((fn_cost * self.y * (1 - pred) + fp_cost * (1 - self.y) * pred).sum() / self.n)

    def signed_weights(self, lam: dict, with_objective=True):
        """w_i = objective part (2 y_i - 1) + sum_j lambda_j U_ij * du_i, written from the
        reduction identity lambda.gamma(h) = -(1/n) sum_i w_i h_i + const."""
        n = self.n
        w = np.zeros(n)
        du = (1 - 2 * self.y) if self.kind == "ERP" else np.ones(n)  # d u_i / d h_i
        for (sign, e, g), lv in lam.items():
            if lv == 0:
                continue
            ne = self.mask_e[e].sum()
            neg = self.mask_eg[(e, g)].sum()
            # d gamma_j / d h_i
            if sign == "+":
                dg = self.ratio * self.mask_eg[(e, g)] / neg - self.mask_e[e] / ne
            else:
                dg = self.ratio * self.mask_e[e] / ne - self.mask_eg[(e, g)] / neg
            w += -n * lv * dg * du
        if with_objective:
            w = w + (2 * self.y - 1)
        return w

    def project(self, lam: dict):
        if self.ratio != 1.0:
            return dict(lam)
        out = {}
        for e, g in self.pairs:
            d = lam.get(("+", e, g), 0.0) - lam.get(("-", e, g), 0.0)
            out[("+", e, g)] = max(d, 0.0)
            out[("-", e, g)] = max(-d, 0.0)
        return out


def enumerate_hypotheses(xvals_train):
    """All {0,1}-valued functions of the distinct training values of the feature:
    returns (values, matrix H[h, i] = prediction of hypothesis h on row i)."""
    keys = [key(v) for v in xvals_train]
    vals = sorted(set(keys), key=lambda t: (isinstance(t, str), t))
    pos = {v: j for j, v in enumerate(vals)}
    col = np.array([pos[k] for k in keys])
    tables = np.array(list(itertools.product([0, 1], repeat=len(vals))), dtype=float)
    return vals, tables[:, col], tables


class ClassRef:
    """Hypothesis class H with pre-computed error / gamma for each member."""

    def __init__(self, mom: ParityRef, xvals):
        self.mom = mom
        self.vals, self.P, self.tables = enumerate_hypotheses(xvals)
        self.err = np.array([mom.error(p) for p in self.P])
        self.G = np.array([mom.gamma_vec(p) for p in self.P])  # |H| x |ids|

    def lam_vec(self, lam: dict):
        return np.array([lam.get(i, 0.0) for i in self.mom.ids])

    def min_L(self, lam: dict):
        lv = self.lam_vec(lam)
        vals = self.err + (self.G - self.mom.bound) @ lv
        return float(vals.min())

    def constrained_opt(self):
        """min error over distributions on H meeting every constraint (LP, HiGHS)."""
        from scipy.optimize import linprog

        nh = len(self.err)
        res = linprog(self.err, A_ub=self.G.T, b_ub=np.full(self.G.shape[1], self.mom.bound),
                      A_eq=np.ones((1, nh)), b_eq=[1.0], bounds=[(0, None)] * nh, method="highs")
        if res.status == 2:
            return None
        if res.status != 0:
            raise RuntimeError(f"reference LP failed: {res.message}")
        return float(res.fun)


def lagrangian(err_q, gamma_q, lam_vec, bound):
    return float(err_q + lam_vec @ (gamma_q - bound))


# --------------------------------------------------------------------------
# bounded group loss reference


def loss_eval(loss, y, pred, lo=0.0, hi=1.0):
    y = np.clip(np.asarray(y, dtype=float), lo, hi)
    pred = np.clip(np.asarray(pred, dtype=float), lo, hi)
    return (y - pred) ** 2 if loss == "square" else np.abs(y - pred)


class BGLRef:
    def __init__(self, y, groups, loss="square", lo=0.0, hi=1.0):
        self.y = np.asarray(y, dtype=float)
        self.groups = [str(g) for g in groups]
        self.n = len(self.y)
        self.loss, self.lo, self.hi = loss, lo, hi
        self.ids = sorted(set(self.groups))
        self.mask = {g: np.array([h == g for h in self.groups]) for g in self.ids}

    def gamma(self, pred):
        l = loss_eval(self.loss, self.y, pred, self.lo, self.hi)
        return {g: float(l[self.mask[g]].mean()) for g in self.ids}

    def mean_loss(self, pred):
        return float(loss_eval(self.loss, self.y, pred, self.lo, self.hi).mean())

    def weights(self, lam: dict):
        """lambda.gamma(h) = (1/n) sum_i w_i loss_i  =>  w_i = lambda_g / p_g for i in g."""
        w = np.zeros(self.n)
        for g, lv in lam.items():
            w[self.mask[g]] = lv / (self.mask[g].sum() / self.n)
        return w
