"""Seams owned by the simulator: scripted RNG, exact oracles (fake peers),
stub back-end engine, scripted callbacks, spy metrics, pickle restart.

All stubs write to the *current* RunContext (kernel.current()); they hold no
randomness of their own - every free choice is taken from the plan.
"""

from __future__ import annotations

import io
import json
import os
import pickle
import subprocess
import sys

import numpy as np
import pandas as pd
from sklearn.base import BaseEstimator

from . import kernel
from .kernel import HarnessError, DecisionList

TIE_TOL = 1e-12

# --------------------------------------------------------------------------
# scripted RandomState


class ScriptedRandomState(np.random.RandomState):
    """numpy RandomState whose uniform draws come from a script.

    ``script`` is a dict: {"mode": "const", "u": u0} -> every uniform equals u0;
    {"mode": "list", "us": [...]} -> consumed in order (cyclic if exhausted).
    Every call is logged.  Any sampling method that is not scripted falls
    through to the real generator and is counted as ``unscripted_draw``.
    """

    def __init__(self, script, seed=0):
        super().__init__(seed)
        self._script = script
        self._pos = 0
        self.calls = []  # (method, size)
        self.choice_calls = []  # scalar draws: (values, p, picked_position, u)
        self.vector_choice_calls = []  # draws with size=...: (values, p, picked_positions)
        self.unscripted = 0

    def _take(self, n):
        s = self._script
        if s["mode"] == "const":
            out = np.full(n, float(s["u"]))
        else:
            us = s["us"]
            if not us:
                raise HarnessError("empty uniform script")
            out = np.array([us[(self._pos + i) % len(us)] for i in range(n)], dtype=float)
            self._pos += n
        return out

    def _shape(self, size):
        if size is None:
            return None, 1
        if isinstance(size, (int, np.integer)):
            return (int(size),), int(size)
        shp = tuple(int(s) for s in size)
        return shp, int(np.prod(shp)) if shp else 1

    def rand(self, *dims):
        self.calls.append(("rand", list(dims)))
        if not dims:
            return float(self._take(1)[0])
        n = int(np.prod(dims))
        return self._take(n).reshape(dims)

    def random_sample(self, size=None):
        self.calls.append(("random_sample", size))
        shp, n = self._shape(size)
        v = self._take(n)
        return float(v[0]) if shp is None else v.reshape(shp)

    random = random_sample

    def uniform(self, low=0.0, high=1.0, size=None):
        self.calls.append(("uniform", size))
        shp, n = self._shape(size)
        v = low + (high - low) * self._take(n)
        return float(v[0]) if shp is None else v.reshape(shp)

    def choice(self, a, size=None, replace=True, p=None):
        vals = np.asarray(a)
        if vals.ndim == 0:
            vals = np.arange(int(vals))
        probs = None if p is None else np.asarray(p, dtype=float)
        shp, n = self._shape(size)
        us = self._take(n)
        picks = []
        for u in us:
            u = float(u)
            if probs is None:
                pos = min(int(u * len(vals)), len(vals) - 1)
            else:
                cdf = np.cumsum(probs)
                pos = int(np.searchsorted(cdf, u * cdf[-1], side="right"))
                pos = min(pos, len(vals) - 1)
            picks.append(pos)
        self.calls.append(("choice", size))
        if shp is None:
            self.choice_calls.append((vals.tolist(), None if probs is None else probs.tolist(), picks[0], float(us[0])))
            return vals[picks[0]]
        self.vector_choice_calls.append((vals.tolist(), None if probs is None else probs.tolist(), picks))
        return vals[np.array(picks)].reshape(shp)

    # anything else = real generator, counted
    def _unscripted(name):  # noqa: N805
        def f(self, *a, **k):
            self.unscripted += 1
            return getattr(np.random.RandomState, name)(self, *a, **k)

        f.__name__ = name
        return f

    randint = _unscripted("randint")
    random_integers = _unscripted("random_integers")
    randn = _unscripted("randn")
    normal = _unscripted("normal")
    standard_normal = _unscripted("standard_normal")
    binomial = _unscripted("binomial")
    permutation = _unscripted("permutation")
    shuffle = _unscripted("shuffle")
    bytes = _unscripted("bytes")
    del _unscripted


# --------------------------------------------------------------------------
# exact oracles (fake peers for `estimator=`)

_INSTANCE_SERIAL = [0]


def reset_serials():
    _INSTANCE_SERIAL[0] = 0


def _feature_column(X, col):
    if isinstance(X, pd.DataFrame):
        return X.iloc[:, col].to_numpy()
    X = np.asarray(X)
    if X.ndim == 1:
        return X
    return X[:, col]


def _key(v):
    """Hashable, JSON-able key for a feature value."""
    if isinstance(v, (np.floating, float)):
        return float(v)
    if isinstance(v, (np.integer, int)):
        return float(v)
    return str(v)


class ExactClassifier(BaseEstimator):
    """Exact cost-sensitive learner over all {0,1}-valued functions of the
    distinct values of one discrete feature.

    ``fit`` minimises the weighted 0/1 loss exactly, value by value.  Ties
    (|cost0 - cost1| <= 1e-12) are the peer's legal freedom and are decided by
    the plan (decision list "ties").  Every fit/predict is logged.
    """

    def __init__(self, col=0, default=0, log_payload=True, proba=False):
        self.col = col
        self.default = default
        self.log_payload = log_payload
        self.proba = proba

    def fit(self, X, y, sample_weight=None):
        ctx = kernel.current()
        if not hasattr(self, "_serial"):
            _INSTANCE_SERIAL[0] += 1
            self._serial = _INSTANCE_SERIAL[0]
            self._fit_count = 0
        self._fit_count += 1
        x = _feature_column(X, self.col)
        y = np.asarray(y).astype(float).reshape(-1)
        w = np.ones(len(y)) if sample_weight is None else np.asarray(sample_weight, dtype=float).reshape(-1)
        if len(x) != len(y) or len(w) != len(y):
            # a malformed request is the caller's fault: answer like any sklearn estimator would
            raise ValueError(f"Found input variables with inconsistent numbers of samples: {[len(x), len(y), len(w)]}")
        table = {}
        ties = 0
        for v in sorted({_key(t) for t in x}, key=lambda t: (isinstance(t, str), t)):
            m = np.array([_key(t) == v for t in x])
            cost_pred1 = float(w[m & (y == 0)].sum())  # predicting 1 errs on y==0 rows
            cost_pred0 = float(w[m & (y == 1)].sum())
            if abs(cost_pred0 - cost_pred1) <= TIE_TOL:
                bit = int(ctx.ties.next())
                ctx.fault("oracle_tiebreak")
                ties += 1
                table[v] = bit
            else:
                table[v] = 1 if cost_pred1 < cost_pred0 else 0
        self.table_ = table
        self.classes_ = np.array([0, 1])
        ev = dict(inst=self._serial, fit_count=self._fit_count, ties=ties, table=table)
        if self.log_payload:
            ev["y"] = y.tolist()
            ev["w"] = w.tolist()
        self._fit_seq = ctx.event("oracle_fit", **ev)
        ctx.oracle_log.append({"seq": self._fit_seq, "inst": self._serial, "fit_count": self._fit_count,
                               "y": y.copy(), "w": w.copy(), "obj": self, "n": len(y)})
        return self

    def _predict_values(self, X):
        x = _feature_column(X, self.col)
        return np.array([self.table_.get(_key(t), self.default) for t in x], dtype=int)

    def predict(self, X):
        out = self._predict_values(X)
        ctx = kernel._CURRENT
        if ctx is not None and getattr(ctx, "log_predicts", False):
            seq = ctx.event("oracle_predict", inst=getattr(self, "_serial", None), n=len(out))
            ctx.predict_log.append({"seq": seq, "inst": getattr(self, "_serial", None), "obj": self,
                                    "x": [_key(t) for t in _feature_column(X, self.col)], "out": out.copy(),
                                    "method": "predict"})
        return out

    def predict_proba(self, X):
        if not self.proba:
            raise AttributeError("predict_proba not offered by this peer")
        out = self._predict_values(X).astype(float)
        res = np.stack([1 - out, out], axis=1)
        ctx = kernel._CURRENT
        if ctx is not None and getattr(ctx, "log_predicts", False):
            seq = ctx.event("oracle_predict_proba", inst=getattr(self, "_serial", None), n=len(out))
            ctx.predict_log.append({"seq": seq, "inst": getattr(self, "_serial", None), "obj": self,
                                    "x": [_key(t) for t in _feature_column(X, self.col)], "out": res.copy(),
                                    "method": "predict_proba"})
        return res


class NestedPeer(BaseEstimator):
    """Composite peer (like a Pipeline or a user wrapper): ``fit`` trains the nested learner *in place*.
    A caller that only shallow-copies this object shares the nested learner between copies."""

    def __init__(self, inner=None):
        self.inner = inner

    def fit(self, X, y, sample_weight=None):
        self.inner.fit(X, y, sample_weight=sample_weight)
        self.classes_ = np.array([0, 1])
        return self

    def predict(self, X):
        return self.inner.predict(X)

    def predict_proba(self, X):
        return self.inner.predict_proba(X)


class ExactRegressor(BaseEstimator):
    """Piecewise-constant regressor: per feature value the weighted mean
    (exact weighted least squares) or the weighted median (exact weighted
    absolute loss; when the half-weight point falls between two labels the
    choice between them is a planned tie decision)."""

    def __init__(self, col=0, loss="square", default=0.0):
        self.col = col
        self.loss = loss
        self.default = default

    def fit(self, X, y, sample_weight=None):
        ctx = kernel.current()
        if not hasattr(self, "_serial"):
            _INSTANCE_SERIAL[0] += 1
            self._serial = _INSTANCE_SERIAL[0]
            self._fit_count = 0
        self._fit_count += 1
        x = _feature_column(X, self.col)
        y = np.asarray(y, dtype=float).reshape(-1)
        w = np.ones(len(y)) if sample_weight is None else np.asarray(sample_weight, dtype=float).reshape(-1)
        table = {}
        ties = 0
        for v in sorted({_key(t) for t in x}, key=lambda t: (isinstance(t, str), t)):
            m = np.array([_key(t) == v for t in x])
            ww, yy = w[m], y[m]
            tot = float(ww.sum())
            if tot <= TIE_TOL:
                # every constant is optimal: planned choice between min and max label
                bit = int(ctx.ties.next())
                ctx.fault("oracle_tiebreak")
                ties += 1
                table[v] = float(yy.max() if bit else yy.min())
            elif self.loss == "square":
                table[v] = float((ww * yy).sum() / tot)
            else:
                order = np.argsort(yy, kind="stable")
                ys, ws = yy[order], ww[order]
                cum = np.cumsum(ws)
                half = tot / 2.0
                k = int(np.searchsorted(cum, half - TIE_TOL, side="left"))
                if abs(cum[k] - half) <= TIE_TOL and k + 1 < len(ys) and ys[k + 1] != ys[k]:
                    bit = int(ctx.ties.next())
                    ctx.fault("oracle_tiebreak")
                    ties += 1
                    table[v] = float(ys[k + 1] if bit else ys[k])
                else:
                    table[v] = float(ys[k])
        self.table_ = table
        self._fit_seq = ctx.event("oracle_fit", inst=self._serial, fit_count=self._fit_count, ties=ties,
                                  table=table, y=y.tolist(), w=w.tolist())
        ctx.oracle_log.append({"seq": self._fit_seq, "inst": self._serial, "fit_count": self._fit_count,
                               "y": y.copy(), "w": w.copy(), "obj": self, "n": len(y)})
        return self

    def predict(self, X):
        x = _feature_column(X, self.col)
        out = np.array([self.table_.get(_key(t), self.default) for t in x], dtype=float)
        ctx = kernel._CURRENT
        if ctx is not None and getattr(ctx, "log_predicts", False):
            seq = ctx.event("oracle_predict", inst=getattr(self, "_serial", None), n=len(out))
            ctx.predict_log.append({"seq": seq, "inst": getattr(self, "_serial", None), "obj": self,
                                    "x": [_key(t) for t in x], "out": out.copy(), "method": "predict"})
        return out


class ScoreStub(BaseEstimator):
    """Wrapped 'estimator' for ThresholdOptimizer: the score is a data column."""

    def __init__(self, col=0, method="predict_proba"):
        self.col = col
        self.method = method

    def fit(self, X, y, **kw):
        ctx = kernel._CURRENT
        if not hasattr(self, "_serial"):
            _INSTANCE_SERIAL[0] += 1
            self._serial = _INSTANCE_SERIAL[0]
            self._fit_count = 0
        self._fit_count += 1
        self.fitted_ = True
        self.classes_ = np.array([0, 1])
        if ctx is not None:
            ctx.event("score_fit", inst=self._serial, fit_count=self._fit_count, n=len(y))
        return self

    def __sklearn_is_fitted__(self):
        return hasattr(self, "fitted_")

    def _s(self, X):
        return np.asarray(_feature_column(X, self.col), dtype=float)

    def __getattr__(self, name):
        # offer the soft-prediction method chosen by `method` ("both": predict_proba and decision_function,
        # like a sklearn Pipeline whose availability of methods depends on the instance, not on the class)
        if name in ("predict_proba", "decision_function") and "method" in self.__dict__:
            if self.__dict__["method"] in (name, "both"):
                if name == "predict_proba":
                    return lambda X: np.stack([1 - self._s(X), self._s(X)], axis=1)
                # a different scale than predict_proba, so that it matters which method is asked
                return lambda X: 4.0 * self._s(X) - 2.0
        raise AttributeError(name)

    def predict(self, X):
        return self._s(X)


# --------------------------------------------------------------------------
# adversarial back-end stub


def _make_stub_engine():
    from fairlearn.adversarial._backend_engine import BackendEngine

    class StubEngine(BackendEngine):
        """Records every train_step payload (row ids travel in column 0 of X)
        and returns planned losses; evaluate returns planned raw outputs keyed
        by row id."""

        def __init__(self, base, X, Y, A):
            self.base = base
            ctx = kernel.current()
            ctx.engine_inits += 1
            ctx.event("engine_init", n=int(np.asarray(X).shape[0]))

        def train_step(self, X, Y, A):
            ctx = kernel.current()
            rows = [int(r) for r in np.asarray(X)[:, 0]]
            step = len(ctx.train_steps) + 1
            ctx.train_steps.append({"rows": rows, "y": np.asarray(Y).tolist(), "a": np.asarray(A).tolist()})
            ctx.event("train_step", step=step, rows=rows)
            lp, la = ctx.losses.next()
            return (lp, la)

        def evaluate(self, X):
            ctx = kernel.current()
            rows = [int(r) for r in np.asarray(X)[:, 0]]
            table = ctx.eval_table
            return np.array([table[str(r)] for r in rows], dtype=float)

        def shuffle(self, X, Y, A):
            raise HarnessError("shuffle must not be called with shuffle=False")

    return StubEngine


_STUB_ENGINE = None


def stub_engine_class():
    global _STUB_ENGINE
    if _STUB_ENGINE is None:
        _STUB_ENGINE = _make_stub_engine()
    return _STUB_ENGINE


class ScriptedCallback:
    """Callback #k: logs the invocation, returns the planned value for (k, step).
    With ``peek`` it behaves like a validation callback: it calls predict on the estimator it is
    handed (query rows in ctx.scratch["peek_X"]) before answering."""

    def __init__(self, k, returns, peek=False):
        self.k = k
        self.returns = returns  # dict: str(step) -> value; default None
        self.peek = peek

    def __call__(self, *args, **kwargs):
        ctx = kernel.current()
        step = kwargs.get("step")
        val = self.returns.get(str(step))
        ctx.callback_log.append((self.k, step))
        if self.peek and args and ctx.scratch.get("peek_X") is not None:
            args[0].predict(ctx.scratch["peek_X"])
            ctx.fault("callback_peek")
        ctx.event("callback", k=self.k, step=step, ret=val)
        if val is True:
            ctx.fault("callback_stop")
        return val


# --------------------------------------------------------------------------
# spy metric for MetricFrame


class SpyMetric:
    """Metric callable: logs the row ids it is handed (they are passed as
    y_true) and returns a value computed from y_pred."""

    def __init__(self, name, kind):
        self.name = name
        self.kind = kind  # "mean" | "count" | "npos" | "const"
        self.__name__ = name

    def __call__(self, y_true, y_pred, row_tag=None):
        ctx = kernel.current()
        rows = [int(r) for r in np.asarray(y_true).reshape(-1)]
        yp = np.asarray(y_pred, dtype=float).reshape(-1)
        if row_tag is not None:
            # a per-sample parameter that repeats the row id: it must travel with its row
            tags = [int(t) for t in np.asarray(row_tag).reshape(-1)]
            ctx.probe("sample_param_seen")
            if tags != rows:
                ctx.scratch.setdefault("row_tag_mismatch", []).append((self.name, rows[:6], tags[:6]))
        if self.kind == "mean":
            val = float(yp.mean()) if len(yp) else float("nan")
        elif self.kind == "count":
            val = len(rows)
        elif self.kind == "npos":
            val = int((yp > 0.5).sum())  # integer-valued and varying from resample to resample
        else:
            val = 0.625
        ctx.spy_log.append((self.name, rows, val))
        ctx.event("metric_call", m=self.name, rows=rows)
        return val


# --------------------------------------------------------------------------
# restart through pickle


def restart_inproc(obj):
    """Only pickled state survives: dumps -> drop -> loads."""
    data = pickle.dumps(obj)
    del obj
    return pickle.loads(data), len(data)


_FRESH_SNIPPET = r"""
import sys, json, pickle, warnings
warnings.filterwarnings("ignore")
sys.path.insert(0, {verif!r})
import os
if os.environ.get("VERIF_REPO"):
    sys.path.insert(0, os.environ["VERIF_REPO"])
import numpy as np, pandas as pd
from sim import seams, kernel
req = pickle.load(sys.stdin.buffer)
obj = pickle.loads(req["blob"])
out = []
for q in req["queries"]:
    fn = getattr(obj, q["method"])
    val = fn(*q["args"], **q["kwargs"])
    out.append(kernel.canon(np.asarray(val)))
sys.stdout.write("ANSWERS " + json.dumps(out) + "\n")
"""


def restart_fresh(obj, queries, hashseed="1"):
    """Unpickle in a brand-new interpreter (other PYTHONHASHSEED) and answer queries there."""
    env = dict(os.environ)
    env["PYTHONHASHSEED"] = hashseed
    env["OMP_NUM_THREADS"] = "1"
    payload = pickle.dumps({"blob": pickle.dumps(obj), "queries": queries})
    p = subprocess.run([sys.executable, "-c", _FRESH_SNIPPET.format(verif=kernel.VERIF_DIR)],
                       input=payload, capture_output=True, env=env, timeout=300)
    if p.returncode != 0:
        return False, p.stderr.decode()[-1500:]
    line = [l for l in p.stdout.decode().splitlines() if l.startswith("ANSWERS ")]
    if not line:
        return False, "no ANSWERS line"
    return True, json.loads(line[-1][len("ANSWERS "):])
