"""C10 - randomised predictors sample from the pmf they report.

The simulator owns the random source: a scripted RandomState turns the
statistical clause into an exact one (label = 1 <=> u < p for every planned
uniform u != p), and planned call histories check reproducibility under
ambient-RNG perturbation.
"""

from __future__ import annotations

import copy
import random

import numpy as np
import pandas as pd

from sim import kernel, seams
from sim.kernel import HarnessError
from checks.c08_expgrad import gen_dataset, make_moment, MOMENTS

PROPERTY = "C10"

TIERS = {
    "quick": {"runs": 600, "wall_cap_s": 75, "det_seeds": 16},
    "thorough": {"runs": 16000, "wall_cap_s": 800, "det_seeds": 128, "det_extra_workers": 4},
}

RULE = (
    "one case = one seeded plan: a fitted model (ExponentiatedGradient classification with/without LP step, "
    "ExponentiatedGradient regression with BoundedGroupLoss without LP step, ThresholdOptimizer over 7 constraints x "
    "objectives x flip x grid_size with tied scores) plus a history of 4-10 calls from {_pmf_predict, predict with a "
    "scripted RandomState (constant / per-row uniforms placed around each p), predict(int seed) twice non-adjacent, "
    "predict(None), ambient RNG perturbation}; non-trivial = the model was fitted and >=1 scripted draw or ambient "
    "perturbation was consumed; distinct = distinct signatures (model family, constraint, |support of weights_| bucket, "
    "weights_ unsorted?, p_ignore present?, rows with p in {0,1} present?, operation-kind sequence)."
)
COMPONENTS = {
    "real": ["ExponentiatedGradient.fit/_pmf_predict/predict", "ThresholdOptimizer.fit", "InterpolatedThresholder._pmf_predict/predict",
             "ThresholdOperation", "sklearn.check_random_state"],
    "stub": ["random_state -> ScriptedRandomState (rand/random_sample/random/uniform/choice scripted)",
             "base learners -> ExactClassifier / ExactRegressor / ScoreStub", "ambient numpy RNG perturbation"],
}
ASSUMPTIONS = [
    "the boundary u == p is unconstrained and u = 0.0 is never scripted (measure zero under a continuous source)",
    "per-row scripts are gating only while predict consumes exactly one rand-family call of length n",
    "statistical fallback over 400 integer seeds flags a row only if the exact two-sided binomial tail is < 1e-12",
    "query sets only contain sensitive-feature values seen in training",
]

TO_CONSTRAINTS = ["demographic_parity", "selection_rate_parity", "false_positive_rate_parity", "false_negative_rate_parity",
                  "true_positive_rate_parity", "true_negative_rate_parity", "equalized_odds"]
TO_OBJ_SIMPLE = ["selection_rate", "true_positive_rate", "true_negative_rate", "accuracy_score", "balanced_accuracy_score"]
TO_OBJ_EO = ["accuracy_score", "balanced_accuracy_score"]
OPS = ["pmf", "const", "rows", "int", "none", "ambient", "mutate"]


def gen_plan(seed, index, tier):
    rng = random.Random(seed)
    fam = ["eg_cls", "eg_reg", "to"][index % 3] if index < 30 else rng.choices(["eg_cls", "eg_reg", "to"], [0.35, 0.3, 0.35])[0]
    plan = {"v": 1, "family": fam}
    if fam == "eg_cls":
        # (3 groups, larger steps and no LP step make it likelier that the returned iterate's index is not in
        # predictor-id order - the condition under which weight/predictor pairing slips become visible)
        rows = gen_dataset(rng, ngroups=rng.choice([2, 3, 3]), nmin=12)
        bound_kind = rng.choice(["diff", "ratio"])
        plan.update(rows=rows, moment=rng.choice(MOMENTS), bound_kind=bound_kind,
                    bound=rng.choice([0.0, 0.01, 0.05]), ratio=1.0 if bound_kind == "diff" else rng.choice([0.5, 0.8, 1.0]),
                    eps=rng.choice([0.01, 0.02, 0.05]), max_iter=rng.choice([3, 5, 8, 12, 20]), lp=rng.random() < 0.35,
                    eta0=rng.choice([2.0, 5.0, 10.0]))
        vals = sorted({r[0] for r in rows})
        plan["xq"] = [rng.choice(vals + [99]) for _ in range(rng.choice([1, 1, 2, 3, 5, 8, 12]))]
    elif fam == "eg_reg":
        rows = gen_dataset(rng, nmin=10)
        rows = [(r[0], r[1], rng.choice([0.0, 0.2, 0.4, 0.6, 0.8, 1.0, round(rng.random(), 2)])) for r in rows]
        plan.update(rows=rows, loss=rng.choice(["square", "abs"]), upper_bound=rng.choice([0.01, 0.03, 0.08, 0.15]),
                    eps=rng.choice([0.01, 0.05, 0.1]), max_iter=rng.choice([4, 6, 8, 12, 16]), lp=rng.random() < 0.15,
                    eta0=rng.choice([0.5, 2.0, 5.0]))
        vals = sorted({r[0] for r in rows})
        plan["xq"] = [rng.choice(vals) for _ in range(rng.choice([1, 1, 2, 3, 5, 8]))]
    else:
        m = rng.randint(2, 4)
        n = rng.randint(4 * m, 40)
        lattice = rng.choice([4, 6, 10, 1000])
        rows = []
        for g in range(m):  # both labels per group
            rows += [(round(rng.randint(0, lattice) / lattice, 3), g, 0), (round(rng.randint(0, lattice) / lattice, 3), g, 1)]
        while len(rows) < n:
            g = rng.randrange(m)
            yv = rng.randint(0, 1)
            s = rng.randint(0, lattice) / lattice
            if rng.random() < 0.6:  # informative scores
                s = min(1.0, max(0.0, s * 0.5 + 0.5 * yv))
            rows.append((round(s, 3), g, yv))
        rng.shuffle(rows)
        cons = TO_CONSTRAINTS[index % 7] if index < 60 else rng.choice(TO_CONSTRAINTS)
        plan.update(rows=rows, constraints=cons,
                    objective=rng.choice(TO_OBJ_EO if cons == "equalized_odds" else TO_OBJ_SIMPLE),
                    grid_size=rng.choice([2, 3, 5, 10, 17, 50]), flip=rng.random() < 0.4, prefit=rng.random() < 0.5,
                    method=rng.choice(["predict_proba", "decision_function", "predict"]))
        scores = sorted({r[0] for r in rows})
        nq = rng.randint(2, 12)
        # query scores: training scores, fresh values, very large finite values and +-infinity
        # (a log-odds decision_function is infinite at p in {0, 1}; JSON carries them as strings)
        plan["xq"] = [[rng.choice(scores + [round(rng.random(), 3), -1e9, 1e9, 0.0, 1.0, "inf", "-inf"]), rng.randrange(m)]
                      for _ in range(nq)]
        plan["q_labels"] = rng.choice([None, None, "series", "series_rev"])
    # history: the same estimator object was fitted on other data and asked for predictions before
    plan["prior"] = None
    if index >= 30 and rng.random() < 0.25:
        pr = list(plan["rows"])
        rng.shuffle(pr)
        keep = max(6, int(len(pr) * rng.choice([0.5, 0.7, 1.0])))
        pr = pr[:keep]
        if fam == "to":
            gs = {r[1] for r in pr}
            okp = all({r[2] for r in pr if r[1] == g} == {0, 1} for g in gs) and gs >= {q[1] for q in plan["xq"]}
        else:
            okp = len({r[1] for r in pr}) >= 2 and len({r[2] for r in pr}) >= 2
        if okp:
            plan["prior"] = {"rows": pr, "max_iter": rng.choice([2, 4, 7]), "seed": rng.randint(0, 2**31 - 1)}
    nops = rng.randint(4, 10)
    ops = []
    int_seed = rng.choice([0, 1, 2**32 - 1]) if rng.random() < 0.15 else rng.randint(0, 2**31 - 1)
    for _ in range(nops):
        k = rng.choice(OPS)
        if k == "const":
            if rng.random() < 0.7:
                ops.append(["const", "p_rank", rng.randint(0, 20), rng.choice([1e-12, -1e-12, 1e-3, -1e-3, 1e-9, -1e-9])])
            else:
                ops.append(["const", "plain", round(rng.uniform(0.001, 0.999), 4), 0.0])
        elif k == "rows":
            ops.append(["rows", [[rng.choice([-1, 1]), rng.choice([1e-12, 1e-9, 1e-6, 1e-3, 0.05]), round(rng.uniform(0.01, 0.99), 4)]
                                 for _ in range(12)]])
        elif k == "int":
            ops.append(["int", int_seed if rng.random() < 0.7 else rng.randint(0, 2**31 - 1)])
        elif k == "ambient":
            ops.append(["ambient", rng.choice(["reseed", "consume"]), rng.randint(0, 2**31 - 1)])
        else:
            ops.append([k])
    # guarantee a non-adjacent pair with the same int seed and one of each scripted kind
    if rng.random() < 0.4:
        ops.insert(rng.randint(0, len(ops)), ["mutate"])
    ops.insert(0, ["int", int_seed])
    ops.append(["const", "p_rank", rng.randint(0, 20), 1e-12])
    ops.append(["rows", [[rng.choice([-1, 1]), rng.choice([1e-12, 1e-9, 1e-3]), round(rng.uniform(0.01, 0.99), 4)] for _ in range(12)]])
    ops.append(["ambient", "reseed", rng.randint(0, 2**31 - 1)])
    ops.append(["int", int_seed])
    plan["ops"] = ops
    plan["stat"] = (index % 4 == 0)
    plan["np_seeds"] = rng.random() < 0.5
    plan["ties"] = [rng.randint(0, 1) for _ in range(300)]
    return plan


# --------------------------------------------------------------------------


def _fit_model(plan, ctx):
    from fairlearn.reductions import ExponentiatedGradient, BoundedGroupLoss, SquareLoss, AbsoluteLoss
    from fairlearn.postprocessing import ThresholdOptimizer

    rows = plan["rows"]
    fam = plan["family"]
    g = np.array([f"g{r[1]}" for r in rows])
    if fam == "eg_cls":
        X = pd.DataFrame({"x": [float(r[0]) for r in rows]})
        y = np.array([r[2] for r in rows])
        mom = make_moment(plan["moment"], plan["bound_kind"], plan["bound"], plan["ratio"])
        est = ExponentiatedGradient(seams.ExactClassifier(col=0, log_payload=False), mom, eps=plan["eps"],
                                    max_iter=plan["max_iter"], eta0=plan["eta0"], run_linprog_step=plan["lp"])
        Xq = pd.DataFrame({"x": [float(v) for v in plan["xq"]]})
        _prior_history(plan, ctx, est, Xq, {}, float)
        ok, ret, site = ctx.call(est.fit, X, y, sensitive_features=g)
        return ok, ret, site, est, Xq, {}
    if fam == "eg_reg":
        X = pd.DataFrame({"x": [float(r[0]) for r in rows]})
        y = np.array([float(r[2]) for r in rows])
        loss = SquareLoss(0.0, 1.0) if plan["loss"] == "square" else AbsoluteLoss(0.0, 1.0)
        est = ExponentiatedGradient(seams.ExactRegressor(col=0, loss=plan["loss"]),
                                    BoundedGroupLoss(loss, upper_bound=plan["upper_bound"]), eps=plan["eps"],
                                    max_iter=plan["max_iter"], eta0=plan["eta0"], run_linprog_step=plan["lp"])
        Xq = pd.DataFrame({"x": [float(v) for v in plan["xq"]]})
        _prior_history(plan, ctx, est, Xq, {}, float)
        ok, ret, site = ctx.call(est.fit, X, y, sensitive_features=g)
        return ok, ret, site, est, Xq, {}
    X = pd.DataFrame({"score": [float(r[0]) for r in rows]})
    y = np.array([r[2] for r in rows])
    stub = seams.ScoreStub(col=0, method=plan["method"])
    if plan["prefit"]:
        stub.fit(X, y)
    pm = plan["method"] if plan["method"] != "predict" else "predict"
    est = ThresholdOptimizer(estimator=stub, constraints=plan["constraints"], objective=plan["objective"],
                             grid_size=plan["grid_size"], flip=plan["flip"], prefit=plan["prefit"],
                             predict_method=("auto" if plan["method"] != "predict" else "predict"))
    nq_ = len(plan["xq"])
    lab = plan.get("q_labels")  # pandas index labels at the seam: rows are matched by position, never by label
    Xq = pd.DataFrame({"score": [float(q[0]) for q in plan["xq"]]},  # float("inf") / float("-inf") for the string forms
                      index=[(i * 3 + 1) % nq_ if nq_ % 3 else nq_ - 1 - i for i in range(nq_)] if lab else None)
    sfq = np.array([f"g{q[1]}" for q in plan["xq"]])
    if lab == "series":
        sfq = pd.Series(sfq, index=list(range(100, 100 + nq_)))
    elif lab == "series_rev":
        sfq = pd.Series(sfq, index=list(range(nq_))[::-1])
    kwq = {"sensitive_features": sfq}
    if not plan["prefit"]:
        _prior_history(plan, ctx, est, Xq, kwq, int, xname="score")
    ok, ret, site = ctx.call(est.fit, X, y, sensitive_features=g)
    return ok, ret, site, est, Xq, kwq


def _prior_history(plan, ctx, est, Xq, kw, ytype, xname="x"):
    """Earlier life of the same estimator object: fit on other data, then predictions.  Nothing of it
    may show in the model that the later fit produces."""
    pr = plan.get("prior")
    if not pr:
        return
    rows = pr["rows"]
    Xp = pd.DataFrame({xname: [float(r[0]) for r in rows]})
    yp = np.array([ytype(r[2]) for r in rows])
    gp = np.array([f"g{r[1]}" for r in rows])
    saved = getattr(est, "max_iter", None)
    if saved is not None:
        est.set_params(max_iter=pr["max_iter"])
    ok, _r, _s = ctx.call(est.fit, Xp, yp, sensitive_features=gp)
    if ok:
        ctx.call(est._pmf_predict, Xq, **kw)
        ctx.call(est.predict, Xq, random_state=pr["seed"], **kw)
        ctx.fault("refit_history")
    if saved is not None:
        est.set_params(max_iter=saved)
    if getattr(est, "nu", "absent") is not None and hasattr(est, "nu"):
        est.nu = None  # keep recorded finding F-C19-2 (nu overwritten by fit) out of this check


def _pmf(ctx, est, Xq, kw):
    ok, out, site = ctx.call(est._pmf_predict, Xq, **kw)
    return ok, out, site


def execute(plan, ctx):
    fam = plan["family"]
    ok, ret, site, est, Xq, kw = _fit_model(plan, ctx)
    ctx.ops += 1
    if not ok:
        ctx.fail("C10.fit_raised", f"fit raised {type(ret).__name__}: {ret} at {site}", {"exc": type(ret).__name__, "site": site})
        return
    nq = len(Xq)
    regression = fam == "eg_reg"
    # ---- reference pmf from the fitted state, computed by label ---------------------
    sig = {"family": fam}
    if fam.startswith("eg"):
        w = est.weights_
        support = [t for t in w.index if w[t] > 0]
        unsorted = list(w.index) != sorted(w.index)
        if unsorted:
            ctx.probe("weights_unsorted")
            if (w == 0).any():
                ctx.probe("weights_unsorted_with_zero_entry")
        pred_by_t = {t: np.asarray(est.predictors_[t].predict(Xq), dtype=float).reshape(-1) for t in w.index}
        sig.update(support=min(len(support), 4), unsorted=unsorted)
        if not regression:
            p_ref = sum(float(w[t]) * pred_by_t[t] for t in w.index)
    else:
        idict = est.interpolated_thresholder_.interpolation_dict
        sig.update(cons=plan["constraints"], p_ignore=any("p_ignore" in v and v.p_ignore != 0 for v in idict.values()))
        if sig["p_ignore"]:
            ctx.probe("p_ignore_present")
            if all(v.p0 in (0, 1) for v in idict.values()):
                ctx.probe("p_ignore_with_all_p0_in_{0,1}")
        if any(0 < v.p0 < 1 for v in idict.values()):
            ctx.probe("interpolation_between_two_thresholds")
    okp, pmf, site = _pmf(ctx, est, Xq, kw)
    if not okp:
        ctx.fail("C10.pmf_raised", f"_pmf_predict raised {type(pmf).__name__}: {pmf} at {site}")
        return
    if not regression:
        pmf = np.asarray(pmf, dtype=float)
        if pmf.shape != (nq, 2) or not np.isfinite(pmf).all() or (pmf < -1e-12).any() or (pmf > 1 + 1e-12).any() \
                or np.abs(pmf.sum(axis=1) - 1).max() > 1e-12:
            ctx.fail("C10.pmf_invalid", f"pmf rows are not distributions: {pmf.tolist()[:4]}")
            return
        p = pmf[:, 1].copy()
        if fam == "eg_cls":
            if np.abs(p - p_ref).max() > 1e-12:
                ctx.fail("C10.pmf_mixture", f"positive probability is not the weights_-weighted mixture of the predictors' outputs: "
                         f"max|d|={np.abs(p - p_ref).max():.3e} (weights_.index={list(w.index)})")
        else:
            _check_thresholder_pmf(ctx, plan, est, p, kw)
            # "depends only on the row's score and group": not on the other rows of the batch or their order
            if nq >= 2:
                perm = list(range(nq))[::-1]
                half = perm[: max(1, nq // 2)]
                for sel, name in ((perm, "reversed"), (half, "sub-batch")):
                    sf_ = kw["sensitive_features"]
                    kw2 = {"sensitive_features": (sf_.iloc[sel] if isinstance(sf_, pd.Series) else sf_[sel])}
                    ok3, pmf3, _ = _pmf(ctx, est, Xq.iloc[sel].reset_index(drop=True), kw2)
                    if not ok3 or np.abs(np.asarray(pmf3, dtype=float)[:, 1] - p[sel]).max() > 1e-12:
                        ctx.fail("C10.pmf_batch_dependent", f"the probability of a row changes when the query batch is {name}")
                        break
        sig["p01"] = bool(((p == 0) | (p == 1)).any())
        if sig["p01"]:
            ctx.probe("rows_with_p_in_{0,1}")
    else:
        # regression: the reported "pmf" is (values of the stored predictors, weights_)
        pred_df = pmf
        for t in w.index:
            col = np.asarray(pred_df[t], dtype=float)
            expect = pred_by_t[t] if w[t] != 0 else None
            if expect is not None and not np.array_equal(col, expect):
                ctx.fail("C10.pmf_regression", f"_pmf_predict column {t} is not predictor {t}'s output")
        p = None
    # ---- history -----------------------------------------------------------------
    int_outputs = {}
    kinds = []
    digest0 = _state_digest(est, fam)
    for op in plan["ops"]:
        kind = op[0]
        kinds.append(kind[0])
        ctx.ops += 1
        if kind == "pmf":
            ok2, pmf2, site = _pmf(ctx, est, Xq, kw)
            if not ok2 or not np.array_equal(np.asarray(pmf2, dtype=float), np.asarray(pmf, dtype=float)):
                ctx.fail("C10.pmf_unstable", "_pmf_predict changed between two calls on the same fitted model")
            elif isinstance(pmf2, np.ndarray) and pmf2.flags.writeable and pmf2 is not pmf:
                pmf2[...] = -1.0  # the caller scribbles on what it was handed: must not be the estimator's own memory
                ctx.fault("returned_array_overwritten")
        elif kind == "mutate":
            # the caller reuses its query buffer: same object, rows reversed in place.  Every reported
            # probability must follow its row (no answer may be remembered by object identity).
            if nq >= 2:
                Xq.iloc[:, :] = Xq.iloc[::-1].to_numpy()
                if "sensitive_features" in kw:
                    sf_ = kw["sensitive_features"]
                    kw["sensitive_features"] = (pd.Series(sf_.to_numpy()[::-1].copy(), index=sf_.index) if isinstance(sf_, pd.Series)
                                                else sf_[::-1].copy())
                plan_xq_now = ctx.scratch.setdefault("xq_now", list(plan["xq"]))
                plan_xq_now.reverse()
                ctx.fault("query_buffer_mutated_in_place")
                int_outputs = {}  # the query changed: earlier seeded outputs are no longer comparable
                ok2, pmf2, site = _pmf(ctx, est, Xq, kw)
                if regression:
                    pred_by_t = {t: v[::-1].copy() for t, v in pred_by_t.items()}
                    good = ok2 and all(np.array_equal(np.asarray(pmf2[t], dtype=float), pred_by_t[t]) for t in w.index if w[t] != 0)
                    pmf = pmf2 if ok2 else pmf
                else:
                    p = p[::-1].copy()
                    good = ok2 and np.abs(np.asarray(pmf2, dtype=float)[:, 1] - p).max() <= 1e-12
                    pmf = np.asarray(pmf2, dtype=float) if ok2 else pmf
                if not good:
                    ctx.fail("C10.pmf_stale_after_inplace_edit", "after the query buffer was edited in place (rows reversed, same object) "
                             "the reported probabilities do not follow the rows")
                    return
        elif kind == "ambient":
            ctx.fault("ambient_rng")
            if op[1] == "reseed":
                np.random.seed(op[2])
            else:
                np.random.rand(1 + op[2] % 7)
        elif kind == "none":
            ok2, out, site = ctx.call(est.predict, Xq, **kw)
            ctx.fault("ambient_rng")
            if not ok2:
                ctx.fail("C10.predict_raised", f"predict(random_state=None) raised {type(out).__name__}: {out} at {site}")
            else:
                _check_values(ctx, fam, out, nq, pred_by_t if regression else None, w if fam.startswith("eg") else None, p)
        elif kind == "int":
            # the same integer, sometimes as a numpy integer (seeds often come out of numpy): numbers.Integral is legal
            seed_obj = {0: op[1], 1: np.int64(op[1]), 2: np.uint32(op[1])}[(op[1] + len(int_outputs) + ctx.ops) % 3] \
                if plan.get("np_seeds") else op[1]
            ok2, out, site = ctx.call(est.predict, Xq, random_state=seed_obj, **kw)
            if not ok2:
                ctx.fail("C10.predict_raised", f"predict(random_state=int) raised {type(out).__name__}: {out} at {site}")
                continue
            out = np.asarray(out)
            _check_values(ctx, fam, out, nq, pred_by_t if regression else None, w if fam.startswith("eg") else None, p)
            if op[1] in int_outputs:
                ctx.probe("int_seed_repeated")
                if not np.array_equal(int_outputs[op[1]], out):
                    ctx.fail("C10.reproducible", f"predict with the same integer random_state={op[1]} gave different outputs within one history")
            int_outputs[op[1]] = out
        elif kind in ("const", "rows"):
            if regression:
                _scripted_regression(ctx, est, Xq, op, pred_by_t, w)
            else:
                _scripted_classification(ctx, est, Xq, kw, op, p)
        else:
            raise HarnessError(f"unknown op {kind}")
        ctx.event("op", op=kind)
    if _state_digest(est, fam) != digest0:
        ctx.fail("C10.state_mutated", "prediction calls altered the fitted state")
    # ---- seam-agnostic statistical fallback -----------------------------------------
    if plan.get("stat") or ctx.probes.get("unscripted_draw") or ctx.probes.get("consumption_pattern_changed"):
        _statistical(ctx, est, Xq, kw, fam, p, pred_by_t if regression else None, w if fam.startswith("eg") else None, plan)
    sig["ops"] = "".join(kinds)[:8]
    sig["refit"] = bool(plan.get("prior"))
    ctx.state(sig)
    ctx.transition({"family": fam, "ops": sorted(set(kinds))})


def _state_digest(est, fam):
    if fam.startswith("eg"):
        return kernel.jdump({"w": est.weights_, "n": len(est.predictors_), "gap": float(est.best_gap_)})
    d = est.interpolated_thresholder_.interpolation_dict
    return kernel.jdump({str(k): {a: (repr(v[a]) if "operation" in a else float(v[a])) for a in sorted(v.keys())} for k, v in d.items()})


def _check_thresholder_pmf(ctx, plan, est, p, kw):
    q = ctx.scratch.get("xq_now", plan["xq"])
    seen = {}
    for i, (s, g) in enumerate(q):
        k = (float(s), g)
        if k in seen and seen[k] != p[i]:
            ctx.fail("C10.pmf_score_group", f"rows with equal (score, group)={k} have different probabilities {seen[k]} vs {p[i]}")
            return
        seen[k] = p[i]
    if not plan["flip"]:
        for g in {gg for _, gg in q}:
            pts = sorted((float(s), p[i]) for i, (s, gg) in enumerate(q) if gg == g)
            for (s0, p0), (s1, p1) in zip(pts, pts[1:]):
                if p1 < p0 - 1e-12:
                    ctx.fail("C10.pmf_monotone", f"group g{g}: probability decreases from {p0} at score {s0} to {p1} at score {s1} (flip=False)")
                    return


def _check_values(ctx, fam, out, nq, pred_by_t, w, p):
    out = np.asarray(out)
    if out.shape != (nq,):
        ctx.fail("C10.shape", f"predict returned shape {out.shape} for {nq} rows")
        return
    if fam != "eg_reg":
        if not set(np.unique(out).tolist()) <= {0, 1}:
            ctx.fail("C10.labels", f"predict returned values outside {{0,1}}: {np.unique(out).tolist()}")
            return
        det = (p == 0) | (p == 1)
        if det.any() and not np.array_equal(out[det].astype(float), p[det]):
            ctx.fail("C10.deterministic_rows", "a row with probability 0 or 1 was not predicted deterministically")
    else:
        for i in range(nq):
            allowed = {float(pred_by_t[t][i]) for t in w.index if w[t] > 0}
            if float(out[i]) not in allowed:
                ctx.fail("C10.regression_support",
                         f"row {i}: predict returned {float(out[i])!r}, which no stored predictor with positive weight outputs "
                         f"(allowed {sorted(allowed)}; weights_.index={list(w.index)})",
                         {"weights_unsorted": list(w.index) != sorted(w.index)})
                return


def _resolve_const(op, p):
    if op[1] == "plain":
        return float(op[2])
    ps = sorted({float(v) for v in p if 0 < v < 1})
    if not ps:
        return 0.5
    u = ps[op[2] % len(ps)] + op[3]
    return min(max(u, 1e-15), 1 - 1e-15)


def _scripted_classification(ctx, est, Xq, kw, op, p):
    nq = len(p)
    if op[0] == "const":
        u0 = _resolve_const(op, p)
        rs = seams.ScriptedRandomState({"mode": "const", "u": u0})
        us = np.full(nq, u0)
    else:
        spec = op[1]
        us = []
        for i in range(nq):
            sgn, delta, plain = spec[i % len(spec)]
            if 0 < p[i] < 1:
                u = p[i] + sgn * delta
                u = plain if not (0 < u < 1) else u
            else:
                u = plain
            us.append(u)
        us = np.array(us)
        rs = seams.ScriptedRandomState({"mode": "list", "us": us.tolist()})
    ok, out, site = ctx.call(est.predict, Xq, random_state=rs, **kw)
    ctx.fault("scripted_uniform", nq)
    if rs.unscripted:
        ctx.probe("unscripted_draw", rs.unscripted)
    if not ok:
        ctx.fail("C10.predict_raised", f"predict(scripted) raised {type(out).__name__}: {out} at {site}")
        return
    out = np.asarray(out)
    _check_values(ctx, "cls", out, nq, None, None, p)
    if out.shape != (nq,):
        return
    if op[0] == "rows":
        one_call = len(rs.calls) == 1 and rs.calls[0][0] in ("rand", "random_sample", "uniform") and \
            int(np.prod(rs.calls[0][1] if isinstance(rs.calls[0][1], list) else [rs.calls[0][1]])) == nq
        if not one_call:
            ctx.probe("consumption_pattern_changed")
            return
    if not rs.calls and not rs.unscripted:
        # a randomised predictor that never asks its random source for anything
        if ((p > 0) & (p < 1)).any():
            ctx.fail("C10.random_state_ignored", "predict did not draw from the supplied random_state although some rows are randomised")
        return
    neq = us != p
    want = (us < p).astype(int)
    if not np.array_equal(out[neq], want[neq]):
        i = int(np.flatnonzero(out[neq] != want[neq])[0])
        idx = np.flatnonzero(neq)[i]
        ctx.fail("C10.draw_vs_pmf",
                 f"row {idx}: reported p={p[idx]!r}, scripted uniform u={us[idx]!r} -> label {out[idx]} but 1[u<p]={want[idx]} "
                 f"({op[0]} script)")


def _scripted_regression(ctx, est, Xq, op, pred_by_t, w):
    nq = len(Xq)
    if op[0] == "const":
        u0 = float(op[2]) if op[1] == "plain" else ((op[2] % 19) + 0.5) / 20.0
        rs = seams.ScriptedRandomState({"mode": "const", "u": u0})
    else:
        rs = seams.ScriptedRandomState({"mode": "list", "us": [s[2] for s in op[1]]})
    ok, out, site = ctx.call(est.predict, Xq, random_state=rs)
    ctx.fault("scripted_uniform", nq)
    if rs.unscripted:
        ctx.probe("unscripted_draw", rs.unscripted)
    if not ok:
        ctx.fail("C10.predict_raised", f"predict(scripted) raised {type(out).__name__}: {out} at {site}")
        return
    out = np.asarray(out, dtype=float)
    _check_values(ctx, "eg_reg", out, nq, pred_by_t, w, None)
    if len(rs.choice_calls) != nq:
        ctx.probe("consumption_pattern_changed")
        return
    unsorted = list(w.index) != sorted(w.index)
    for i, (vals, probs, pos, u) in enumerate(rs.choice_calls):
        if probs is None:
            ctx.fail("C10.regression_pairing", f"row {i}: choice was called without probabilities")
            return
        got = sorted((round(float(v), 12), round(float(q), 12)) for v, q in zip(vals, probs) if q > 0)
        want = sorted((round(float(pred_by_t[t][i]), 12), round(float(w[t]), 12)) for t in w.index if w[t] > 0)
        if got != want:
            ctx.fail("C10.regression_pairing",
                     f"row {i}: choice(values, p) pairs predictor outputs with other predictors' weights: got {got[:5]} "
                     f"expected {want[:5]} (weights_.index={list(w.index)})", {"weights_unsorted": unsorted})
            return
        if float(out[i]) != float(vals[pos]):
            ctx.fail("C10.regression_value", f"row {i}: returned {out[i]} is not the value chosen by the random source")
            return


def _binom_outlier(k, S, p, alpha=1e-12):
    """True if observing k successes in S Bernoulli(p) trials has two-sided exact tail probability < alpha."""
    from scipy.stats import binom

    p = min(1.0, max(0.0, p))
    if p in (0.0, 1.0):
        return k != int(round(p * S))
    return bool(binom.cdf(k, S, p) < alpha or binom.sf(k - 1, S, p) < alpha)


def _statistical(ctx, est, Xq, kw, fam, p, pred_by_t, w, plan):
    S = 400
    nq = len(Xq)
    ctx.probe("statistical_fallback")
    if fam != "eg_reg":
        cnt = np.zeros(nq)
        for s in range(S):
            ok, out, site = ctx.call(est.predict, Xq, random_state=1000 + s, **kw)
            if not ok:
                ctx.fail("C10.predict_raised", f"predict raised {type(out).__name__}: {out} at {site}")
                return
            cnt += np.asarray(out, dtype=float)
        freq = cnt / S
        bad = np.array([_binom_outlier(int(cnt[i]), S, float(p[i])) for i in range(nq)])
        if bad.any():
            i = int(np.flatnonzero(bad)[0])
            ctx.fail("C10.frequency", f"row {i}: label-1 frequency over {S} seeds is {freq[i]:.4f}, reported p={p[i]:.4f} "
                     f"(exact binomial tail < 1e-12)")
    else:
        hits = [dict() for _ in range(nq)]
        for s in range(S):
            ok, out, site = ctx.call(est.predict, Xq, random_state=1000 + s)
            if not ok:
                ctx.fail("C10.predict_raised", f"predict raised {type(out).__name__}: {out} at {site}")
                return
            for i, v in enumerate(np.asarray(out, dtype=float)):
                hits[i][float(v)] = hits[i].get(float(v), 0) + 1
        unsorted = list(w.index) != sorted(w.index)
        for i in range(nq):
            mass = {}
            for t in w.index:
                if w[t] > 0:
                    v = float(pred_by_t[t][i])
                    mass[v] = mass.get(v, 0.0) + float(w[t])
            for v in set(mass) | set(hits[i]):
                q = min(1.0, mass.get(v, 0.0))
                f = hits[i].get(v, 0) / S
                if _binom_outlier(hits[i].get(v, 0), S, q):
                    ctx.fail("C10.frequency", f"row {i}: value {v} returned with frequency {f:.4f} over {S} seeds, its predictors' total weight is {q:.4f}",
                             {"weights_unsorted": unsorted})
                    return


def shrink_candidates(plan):
    p = plan

    def mod(**kw):
        q = copy.deepcopy(p)
        q.update(kw)
        return q

    ops = p["ops"]
    if p.get("prior"):
        yield mod(prior=None)
    if p.get("stat"):
        yield mod(stat=False)
    for size in (len(ops) // 2, 2, 1):
        if size < 1:
            continue
        for s in range(0, len(ops), size):
            yield mod(ops=ops[:s] + ops[s + size:])
    if len(p["xq"]) > 1:
        for k in range(len(p["xq"])):
            yield mod(xq=[x for j, x in enumerate(p["xq"]) if j != k])
    rows = p["rows"]
    n = len(rows)
    for size in (n // 2, n // 4, 2, 1):
        if size < 1:
            continue
        for s in range(0, n, size):
            cand = rows[:s] + rows[s + size:]
            if len(cand) < 4 or len({r[1] for r in cand}) < 2:
                continue
            if p["family"] == "to":
                gs = {r[1] for r in cand}
                if not all({r[2] for r in cand if r[1] == g} == {0, 1} for g in gs):
                    continue
                if not gs >= {q[1] for q in p["xq"]}:
                    continue
            elif len({r[2] for r in cand}) < 2:
                continue
            yield mod(rows=cand)
    if p.get("max_iter", 0) > 2:
        for mi in (2, 3, 4, 5, 6, 8):
            if mi < p["max_iter"]:
                yield mod(max_iter=mi)
    if p.get("grid_size", 0) > 2:
        for gs_ in (2, 3, 5, 10):
            if gs_ < p["grid_size"]:
                yield mod(grid_size=gs_)
    if any(p.get("ties", [])):
        yield mod(ties=[])
