"""C18 - bootstrap intervals: reproducible, ordered, shaped like the estimates.

The metric callables are the observation seam: a spy metric receives row ids as
y_true, so the simulator sees exactly which rows every resample contains.  The
same seeded construction is repeated after ambient-RNG perturbation (and, in the
thorough tier, in a fresh interpreter under another PYTHONHASHSEED).
"""

from __future__ import annotations

import copy
import random

import numpy as np
import pandas as pd

from sim import kernel, seams
from sim.kernel import HarnessError

PROPERTY = "C18"

TIERS = {
    "quick": {"runs": 380, "wall_cap_s": 60, "det_seeds": 16, "fresh_every": 120},
    "thorough": {"runs": 24000, "wall_cap_s": 800, "det_seeds": 128, "det_extra_workers": 4, "fresh_every": 40},
}

RULE = (
    "one case = one seeded plan (8-40 rows, 1-3 sensitive and 0-2 control features over small alphabets, callable or "
    "dict metrics built from spy metrics {mean of y_pred, count, constant}, n_boot 1-25, 1-4 quantiles, integer "
    "random_state) constructed twice with an ambient-RNG perturbation and an unrelated seeded MetricFrame in between "
    "(thorough: a third time in a fresh interpreter under another PYTHONHASHSEED); non-trivial = construction "
    "succeeded and >=1 ambient perturbation was applied; distinct = distinct signatures (feature layout, metric form, "
    "n_boot bucket, #quantiles, group missing in some resample?, all-NaN cell present?)."
)
COMPONENTS = {
    "real": ["MetricFrame.__init__/_populate_results_ci and all *_ci accessors", "_bootstrap.generate_bootstrap_samples / "
             "calculate_pandas_quantiles / _align_sample_indices", "DisaggregatedResult", "pandas DataFrame.sample, numpy default_rng"],
    "stub": ["metrics -> SpyMetric (logs row ids, returns mean/count/constant)", "ambient numpy RNG perturbation"],
}
ASSUMPTIONS = [
    "quantile interpolation rule is not fixed by the property: only the definition-agnostic bracket is gating",
    "wide-pair enclosure is asserted only for 8 <= n_boot <= 20 where it follows from the bracket",
    "y_pred values are generic reals so that resample means do not collide by accident",
]

ALPHA = [["a", "b"], ["a", "b", "c"], [0, 1], ["x", "y", "z", "w"], [1, 2, 3]]
QUANTS = [0.025, 0.05, 0.25, 0.5, 0.75, 0.95, 0.975]


def gen_plan(seed, index, tier):
    rng = random.Random(seed)
    n = rng.randint(8, 40)
    nsf = rng.choice([1, 1, 2, 3])
    ncf = rng.choice([0, 0, 1, 2])
    feats = []
    for j in range(nsf + ncf):
        alpha = rng.choice(ALPHA)
        skew = rng.random() < 0.4  # rare values => groups missing from some resamples
        col = []
        for i in range(n):
            if skew and rng.random() < 0.8:
                col.append(alpha[0])
            else:
                col.append(rng.choice(alpha))
        feats.append(col)
    rare = rng.random() < 0.18
    if rare:
        # two or three values that occur once or twice: with a tiny n_boot the resamples then tend to
        # lose *different* groups while keeping the same number of groups
        alpha = rng.choice([["a", "b", "c"], ["a", "b", "c", "d"], [0, 1, 2, 3]])
        col = [alpha[0]] * n
        pos = rng.sample(range(n), min(n - 2, 2 * (len(alpha) - 1)))
        for j, v in enumerate(alpha[1:]):
            col[pos[2 * j]] = v
            if rng.random() < 0.4:
                col[pos[2 * j + 1]] = v
        feats[rng.randrange(nsf)] = col
    varying = rng.random() < 0.85
    ypred = [round(((i * 0.61803398875 + 0.137 * rng.random()) % 1.0), 6) if varying else 0.5 for i in range(n)]
    form = rng.choice(["callable", "dict1", "dict"])
    if form == "callable":
        metrics = [rng.choice(["mean", "mean", "count", "const", "npos"])]
    elif form == "dict1":
        metrics = [rng.choice(["mean", "count", "const", "npos"])]
    else:
        # (an all-integer frame - count and npos only - keeps an integer dtype in every resample)
        metrics = rng.sample(["mean", "count", "const", "npos"], rng.randint(2, 3)) if rng.random() < 0.8 else ["count", "npos"]
    wide = rng.random() < 0.4
    if wide:
        qs = [rng.choice([0.025, 0.05]), rng.choice([0.95, 0.975])]
        if rng.random() < 0.5:
            qs.insert(1, rng.choice([0.25, 0.5, 0.75]))
        # (2 <= B <= 20; tiny B makes the pair hinge on the interpolation inside a single gap of the resample values)
        n_boot = rng.choice([2, 2, 3, 4, 6]) if rng.random() < 0.35 else rng.randint(8, 20)
    else:
        qs = rng.sample(QUANTS, rng.randint(1, 4))
        if rng.random() < 0.6:
            qs.sort()
        if rng.random() < 0.15:
            qs.insert(rng.randint(0, len(qs)), rng.choice(qs))  # a repeated quantile is legal: one entry per *requested* quantile
        n_boot = rng.choice([1, 2, 3, 5, 8, 13, 25, 25, 32])
        if rare:
            n_boot = rng.choice([2, 2, 3, 3, 4])
    collide = None
    if rng.random() < 0.02:
        # integer seeds for which numpy's default_rng(seed).integers(0, 2**32-1, n_boot) contains a repeated value
        # (found by search): two resamples then legitimately coincide - and nothing else may change
        collide = rng.choice([[302385, 88], [479557, 116], [14336, 132]])
    plan = {
        "v": 1, "n": n, "nsf": nsf, "ncf": ncf, "feats": feats, "ypred": ypred, "varying": varying, "form": form,
        "metrics": metrics, "quantiles": qs, "n_boot": n_boot,
        # integer seeds including the boundary values 0 and 2**32 - 1
        "rs": rng.choice([0, 0, 1, 2**32 - 1]) if rng.random() < 0.15 else rng.randint(0, 2**31 - 1),
        "container": rng.choice(["df", "dict", "array"]),
        "ambient": [rng.choice(["reseed", "consume"]), rng.randint(0, 2**31 - 1)], "other_rs": rng.randint(0, 2**31 - 1),
        "fresh": bool(TIERS[tier].get("fresh_every") and index % TIERS[tier]["fresh_every"] == 0),
        "rare": rare,
        # per-sample parameter (the row id again) handed to the metrics: must be resampled with its row
        "row_tag": rng.random() < 0.3,
        # history on the caller's side: after construction the caller recycles its containers in place, and reads
        # the accessors in a planned order (some twice) - the second construction is read plainly
        "scribble": rng.random() < 0.3,
        "read_order": (rng.sample(range(8), 8) + [rng.randrange(8) for _ in range(3)]) if rng.random() < 0.4 else None,
    }
    if collide:
        plan["rs"], plan["n_boot"] = collide
        plan["collide"] = True
    return plan


def _features(plan, lo, hi, prefix):
    cols = plan["feats"][lo:hi]
    if not cols:
        return None
    names = [f"{prefix}{j}" for j in range(len(cols))]
    if plan["container"] == "df":
        return pd.DataFrame({nm: c for nm, c in zip(names, cols)})
    if plan["container"] == "dict":
        return {nm: list(c) for nm, c in zip(names, cols)}
    arr = np.array([[str(v) for v in c] for c in cols], dtype=object).T
    return arr if len(cols) > 1 else np.array([str(v) for v in cols[0]], dtype=object)


def construct(plan, ctx, rs=None):
    from fairlearn.metrics import MetricFrame

    spies = {f"m_{k}": seams.SpyMetric(f"m_{k}", k) for k in plan["metrics"]}
    metrics = list(spies.values())[0] if plan["form"] == "callable" else spies
    sample_params = None
    if plan.get("row_tag"):
        tag = {"row_tag": list(range(plan["n"]))}
        sample_params = tag if plan["form"] == "callable" else {name: dict(tag) for name in spies}
    ctx.spy_log = []
    handed = {"y_true": list(range(plan["n"])), "y_pred": list(plan["ypred"]), "q": list(plan["quantiles"]),
              "sf": _features(plan, 0, plan["nsf"], "sf"), "cf": _features(plan, plan["nsf"], plan["nsf"] + plan["ncf"], "cf"),
              "sample_params": sample_params}
    ctx.scratch["handed"] = handed  # the caller's own containers (see scribble())
    ok, mf, site = ctx.call(MetricFrame, metrics=metrics, y_true=handed["y_true"], y_pred=handed["y_pred"],
                            sample_params=sample_params,
                            sensitive_features=handed["sf"], control_features=handed["cf"],
                            n_boot=plan["n_boot"], ci_quantiles=handed["q"],
                            random_state=plan["rs"] if rs is None else rs)
    return ok, mf, site, list(ctx.spy_log)


def scribble(ctx):
    """The caller recycles, in place, every container it handed to the constructor (the quantile list is cleared
    and refilled with other quantiles in descending order, labels / predictions / per-sample parameters are
    reversed, feature columns overwritten).  The intervals describe the construction: they must not move."""
    h = ctx.scratch["handed"]
    q = h["q"]
    q[:] = sorted({0.9, 0.6, 0.3} | set(q), reverse=True)
    h["y_true"].reverse()
    h["y_pred"].reverse()
    sp = h["sample_params"]
    if sp:
        lists = {id(v["row_tag"]): v["row_tag"] for v in ([sp] if "row_tag" in sp else list(sp.values()))}
        for lst in lists.values():
            lst.reverse()
    for f in (h["sf"], h["cf"]):
        if isinstance(f, pd.DataFrame):
            for c in f.columns:
                f[c] = list(f[c])[::-1]
        elif isinstance(f, dict):
            for c in f.values():
                c.reverse()
        elif isinstance(f, np.ndarray):
            f[...] = f[::-1].copy()
    ctx.fault("caller_recycles_its_containers")


ACCESSORS = [
    ("overall", lambda m: m.overall, lambda m: m.overall_ci),
    ("by_group", lambda m: m.by_group, lambda m: m.by_group_ci),
    ("group_min", lambda m: m.group_min(), lambda m: m.group_min_ci()),
    ("group_max", lambda m: m.group_max(), lambda m: m.group_max_ci()),
    ("difference_bg", lambda m: m.difference(method="between_groups"), lambda m: m.difference_ci(method="between_groups")),
    ("difference_to", lambda m: m.difference(method="to_overall"), lambda m: m.difference_ci(method="to_overall")),
    ("ratio_bg", lambda m: m.ratio(method="between_groups"), lambda m: m.ratio_ci(method="between_groups")),
    ("ratio_to", lambda m: m.ratio(method="to_overall"), lambda m: m.ratio_ci(method="to_overall")),
]


def collect(ctx, mf, order=None):
    out = {}
    acc = ACCESSORS if not order else [ACCESSORS[i % len(ACCESSORS)] for i in order]
    for name, point, ci in acc:
        ok, pv, site = ctx.call(point, mf)
        ok2, cv, site2 = ctx.call(ci, mf)
        if name in out:
            # an accessor asked again (a history of reads on one frame) must repeat its answer
            a, b = _canon_results({name: out[name]}), _canon_results({name: (ok, pv, ok2, cv, site2)})
            if a != b:
                ctx.fail("C18.ci_unstable", f"{name}_ci answered differently when it was read again on the same MetricFrame")
            continue
        out[name] = (ok, pv, ok2, cv, site2)
    return {name: out[name] for name, _p, _c in ACCESSORS if name in out}


def _is_scalar(x):
    return not isinstance(x, (pd.Series, pd.DataFrame, list, tuple, np.ndarray))


def _subsequence(sub, full):
    it = iter(full)
    return all(any(x == y for y in it) for x in sub)


def _idx_list(ix):
    return [tuple(i) if isinstance(i, tuple) else (i,) for i in ix]


def _num(a):
    return np.asarray(a, dtype=float)


def execute(plan, ctx):
    n, qs, B = plan["n"], plan["quantiles"], plan["n_boot"]
    ok, mf, site, log1 = construct(plan, ctx)
    ctx.ops += 1
    if not ok:
        ctx.fail("C18.construct_raised", f"MetricFrame raised {type(mf).__name__}: {mf} at {site}",
                 {"exc": type(mf).__name__, "site": site})
        return
    if plan.get("scribble"):
        scribble(ctx)
    res1 = collect(ctx, mf, plan.get("read_order"))
    # ---- ambient perturbation + an unrelated construction in between ----------------
    ctx.fault("ambient_rng")
    if plan["ambient"][0] == "reseed":
        np.random.seed(plan["ambient"][1])
    else:
        np.random.rand(1 + plan["ambient"][1] % 5)
    construct(plan, ctx, rs=plan["other_rs"])
    ctx.fault("interleaved_construction")
    ok2, mf2, site2, log2 = construct(plan, ctx)
    ctx.ops += 1
    if not ok2:
        ctx.fail("C18.construct_raised", f"second MetricFrame raised {type(mf2).__name__}: {mf2} at {site2}")
        return
    res2 = collect(ctx, mf2)
    # ---- 3. reproducibility ------------------------------------------------------------
    if [(m, r) for m, r, _ in log1] != [(m, r) for m, r, _ in log2]:
        ctx.fail("C18.reproducible_rows", "two constructions with the same integer random_state resampled different rows")
    c1, c2 = _canon_results(res1), _canon_results(res2)
    if c1 != c2:
        bad = [k for k in c1 if c1[k] != c2.get(k)]
        ctx.fail("C18.reproducible_values", f"*_ci values differ between two constructions with the same integer random_state: {bad}")
    ctx.obs["ci"] = c1
    if plan.get("fresh") and not plan.get("fresh_child"):
        child = copy.deepcopy(plan)
        child["fresh_child"] = True
        r = kernel.run_plans_fresh(PROPERTY, [child], hashseed="1")[0]
        ctx.fault("hashseed")
        if r.get("obs", {}).get("ci") != kernel.canon(c1):
            ctx.fail("C18.reproducible_fresh", "*_ci values differ in a fresh interpreter under another PYTHONHASHSEED")
    if ctx.scratch.get("row_tag_mismatch"):
        name, rows_, tags_ = ctx.scratch["row_tag_mismatch"][0]
        ctx.fail("C18.row_integrity", f"a per-sample parameter did not travel with its row in a (re)sample: metric {name} got rows "
                 f"{rows_}.. with parameters of rows {tags_}..")
    # ---- parse the spy log into 1 + n_boot blocks ----------------------------------------
    blocks = _parse_blocks(ctx, plan, log1)
    # ---- 1./2. shape and ordering ---------------------------------------------------------
    order = np.argsort(qs, kind="stable")
    for name, (okp, pv, okc, cv, csite) in res1.items():
        if not okc:
            ctx.fail("C18.ci_raised", f"{name}_ci raised {type(cv).__name__}: {cv} at {csite}", {"accessor": name, "exc": type(cv).__name__})
            continue
        if not okp:
            continue  # the point estimate itself is unavailable (cached exception) - nothing to compare with
        if not isinstance(cv, list) or len(cv) != len(qs):
            ctx.fail("C18.ci_length", f"{name}_ci is not a list with one entry per quantile: {type(cv).__name__} len={len(cv) if hasattr(cv, '__len__') else '?'}")
            continue
        shaped = True
        for e in cv:
            msg = _shape_mismatch(pv, e, name, blocks, plan)
            if msg:
                ctx.fail("C18.ci_shape", f"{name}_ci: {msg}", {"accessor": name})
                shaped = False
                break
        if not shaped:
            continue
        for a in range(len(cv)):
            for b in range(a + 1, len(cv)):
                if qs[a] != qs[b] and isinstance(cv[a], (pd.Series, pd.DataFrame)) and \
                        (cv[a] is cv[b] or np.shares_memory(cv[a].to_numpy(), cv[b].to_numpy())):
                    ctx.fail("C18.ci_aliased", f"{name}_ci: the entries for q={qs[a]} and q={qs[b]} are the same object / share memory "
                             f"(not one entry per requested quantile)")
                    shaped = False
                    break
            if not shaped:
                break
        if not shaped:
            continue
        for a, b in zip(order, order[1:]):
            lo, hi = _num(_values(cv[a])), _num(_values(cv[b]))
            if lo.shape != hi.shape:
                continue
            with np.errstate(invalid="ignore"):
                viol = lo > hi + 1e-12
                if qs[a] == qs[b]:
                    viol = viol | (hi > lo + 1e-12)
            if viol.any():
                ctx.fail("C18.ci_order", f"{name}_ci: entry for q={qs[a]} exceeds entry for q={qs[b]}: {lo[viol][:3]} > {hi[viol][:3]}")
                break
    if blocks is None:
        # The call order assumed by the block parser did not fit.  That alone is not a violation (the
        # property does not fix an evaluation order): fall back to order-agnostic resampling checks.
        ctx.probe("spy_log_unparseable")
        first = f"m_{plan['metrics'][0]}"
        allrows = [r for m, rows, _ in log1 if m == first for r in rows]
        if len(allrows) != 2 * n * (1 + B) or not set(allrows) <= set(range(n)):
            ctx.fail("C18.resample_size", f"metric calls cover {len(allrows)} rows in total, expected 2*n*(1+n_boot)={2 * n * (1 + B)} "
                     f"(every resample must draw exactly n of the n data rows); parser: {ctx.obs.get('parse_reason')}")
        elif n >= 8 and B >= 8:
            from collections import Counter
            cnt = Counter(allrows)
            if len(cnt) == n and len(set(cnt.values())) == 1:
                ctx.fail("C18.no_replacement", "every data row was evaluated equally often over all resamples (sampling without replacement?)")
        ctx.state({"nsf": plan["nsf"], "ncf": plan["ncf"], "form": plan["form"], "parse": False})
        return
    # ---- 4. resampling clauses ----------------------------------------------------------------
    resamples = blocks[1:]
    if sorted(blocks[0]["rows"]) != list(range(n)):
        ctx.fail("C18.point_rows", "the point estimate was not computed on exactly the n data rows")
    for b, blk in enumerate(resamples):
        if len(blk["rows"]) != n or not set(blk["rows"]) <= set(range(n)):
            ctx.fail("C18.resample_size", f"resample {b} has {len(blk['rows'])} rows (n={n})")
            break
    no_cf = plan["ncf"] == 0
    names = [f"m_{k}" for k in plan["metrics"]]
    okp, pv, okc, cv, _ = res1["overall"]
    if okc and isinstance(cv, list) and len(cv) == len(qs):
        if "count" in plan["metrics"] and no_cf:
            for e in cv:
                val = _cell(e, plan, "m_count")
                if val is not None and val != n:
                    ctx.fail("C18.count_overall", f"overall count quantile is {val}, n={n}")
                    break
        if "const" in plan["metrics"] and no_cf:
            for e in cv:
                val = _cell(e, plan, "m_const")
                if val is not None and abs(val - 0.625) > 1e-12:
                    ctx.fail("C18.const_metric", f"constant metric has quantile {val} != point estimate 0.625")
                    break
    # ---- 5. resamples differ, with replacement ------------------------------------------------
    if n >= 8 and B >= 8:
        multisets = {tuple(sorted(blk["rows"])) for blk in resamples}
        if len(multisets) < 2:
            ctx.fail("C18.resamples_identical", f"all {B} resamples contain the same multiset of rows")
        if not any(len(set(blk["rows"])) < len(blk["rows"]) for blk in resamples):
            ctx.fail("C18.no_replacement", f"no resample among {B} contains a repeated row (sampling without replacement?)")
    # every data row is drawn at least once over >= 25 resamples (a correct sampler misses a given row with
    # probability (1 - 1/n)^(n*B) <= e^-25; over n <= 40 rows that is < 1e-9 per run)
    if B >= 25:
        drawn = set()
        for blk in resamples:
            drawn.update(blk["rows"])
        never = sorted(set(range(n)) - drawn)
        if never:
            ctx.fail("C18.rows_never_drawn", f"data row(s) {never[:5]} of {n} were drawn in none of the {B} resamples "
                     f"(every resample must draw from all n data rows)")
        ctx.probe("row_coverage_checked")
    # ---- 6. quantile bracket against the spy-computed per-resample values -----------------------
    _bracket_checks(ctx, plan, res1, resamples)
    # ---- 7. wide pair ------------------------------------------------------------------------------
    # (for 2 <= B <= 20, q_lo <= 0.05 and q_hi >= 0.95 the interpolated quantiles lie in the first and the last gap
    #  of the sorted resample values, so for values that are not all equal the pair has positive width and encloses
    #  their mean; this holds for every metric, integer-valued ones included)
    for mk in ("mean", "npos"):
        if not (mk in plan["metrics"] and no_cf and plan["varying"] and n >= 8 and 2 <= B <= 20 and okc
                and isinstance(cv, list) and len(cv) == len(qs)):
            continue
        lo_i = [i for i, q in enumerate(qs) if q <= 0.05]
        hi_i = [i for i, q in enumerate(qs) if q >= 0.95]
        if lo_i and hi_i:
            c_lo, c_hi = _cell(cv[lo_i[0]], plan, "m_" + mk), _cell(cv[hi_i[0]], plan, "m_" + mk)
            v = [blk["overall"][()]["m_" + mk] for blk in resamples if () in blk["overall"]]
            if c_lo is not None and c_hi is not None and len(v) == B and max(v) > min(v):
                ctx.probe("wide_pair_checked")
                if mk == "npos":
                    ctx.probe("wide_pair_checked_integer_metric")
                if not c_lo < c_hi:
                    ctx.fail("C18.wide_pair_width", f"wide quantile pair of {mk} has no positive width: [{c_lo}, {c_hi}] "
                             f"although the resampled values differ ({sorted(v)[:3]}..{sorted(v)[-2:]})")
                elif not (c_lo - 1e-12 <= float(np.mean(v)) <= c_hi + 1e-12):
                    ctx.fail("C18.wide_pair_mean", f"resampling mean {np.mean(v)} of {mk} is outside [{c_lo}, {c_hi}]")
    if plan.get("collide"):
        ctx.probe("colliding_resample_seeds")
    gsets = [frozenset(blk["groups"]) for blk in resamples]
    if len({len(g) for g in gsets}) == 1 and len(set(gsets)) > 1:
        ctx.probe("resamples_same_group_count_different_groups")
    missing = any(len(blk["groups"]) < len(blocks[0]["groups"]) for blk in resamples)
    if missing:
        ctx.probe("group_missing_in_some_resample")
    okb, pvb, okcb, cvb, _ = res1["by_group"]
    nan_cell = bool(okb and isinstance(pvb, (pd.Series, pd.DataFrame)) and pd.isna(pvb).to_numpy().any())
    if nan_cell:
        ctx.probe("nan_cell_in_point_estimate")
    ctx.event("c18_done", ci=c1)
    ctx.state({"nsf": plan["nsf"], "ncf": plan["ncf"], "form": plan["form"], "nm": len(plan["metrics"]),
               "boot": 0 if B < 3 else (1 if B < 8 else 2), "nq": len(qs), "missing": missing, "nan": nan_cell,
               "cont": plan["container"]})
    ctx.transition({"nsf": plan["nsf"], "ncf": plan["ncf"], "form": plan["form"], "missing": missing})


def _values(e):
    if isinstance(e, (pd.Series, pd.DataFrame)):
        return e.to_numpy(dtype=float, na_value=np.nan) if hasattr(e, "to_numpy") else np.asarray(e)
    return np.asarray([e], dtype=float)


def _cell(e, plan, metric):
    """Overall value of one metric when there are no control features."""
    if plan["form"] == "callable":
        if _is_scalar(e):
            return float(e)
        return None
    if isinstance(e, pd.Series) and metric in e.index:
        return float(e[metric])
    return None


def _canon_results(res):
    out = {}
    for name, (okp, pv, okc, cv, _s) in res.items():
        if not okc:
            out[name] = f"EXC:{type(cv).__name__}"
        else:
            out[name] = kernel.canon([_canon_entry(e) for e in cv]) if isinstance(cv, list) else kernel.canon(repr(type(cv)))
    return out


def _canon_entry(e):
    if isinstance(e, (pd.Series, pd.DataFrame)):
        return kernel.canon(e)
    try:
        return float(e)
    except (TypeError, ValueError):
        return repr(e)


def _shape_mismatch(pv, e, name, blocks, plan):
    if isinstance(pv, pd.DataFrame):
        if not isinstance(e, pd.DataFrame):
            return f"point estimate is a DataFrame, ci entry is {type(e).__name__}"
        if list(e.columns) != list(pv.columns):
            return f"columns {list(e.columns)} != {list(pv.columns)}"
        return _index_mismatch(pv.index, e.index, name, blocks, plan)
    if isinstance(pv, pd.Series):
        if not isinstance(e, pd.Series):
            return f"point estimate is a Series, ci entry is {type(e).__name__}"
        return _index_mismatch(pv.index, e.index, name, blocks, plan)
    if not _is_scalar(e):
        return f"point estimate is a scalar ({type(pv).__name__}), ci entry is {type(e).__name__}"
    return None


def _index_mismatch(pix, eix, name, blocks, plan):
    if list(pix.names) != list(eix.names):
        return f"index level names {list(eix.names)} != {list(pix.names)}"
    pl, el = _idx_list(pix), _idx_list(eix)
    if not set(el) <= set(pl):
        return f"index contains entries that the point estimate lacks: {sorted(set(el) - set(pl), key=str)[:3]}"
    if len(set(el)) != len(el):
        return "duplicate index entries"
    if not _subsequence(el, pl):
        return "index order differs from the point estimate"
    # which entries must be present?
    if pix.names == [None] or (len(pix.names) == 1 and pix.names[0] is None):
        # metric-name index (dict metrics, no features): must be identical
        if el != pl:
            return f"index {el} != {pl}"
        return None
    if blocks is None:
        return None
    level_names = list(pix.names)
    required = set()
    for blk in blocks[1:]:
        keys = blk["groups"] if any((_base(nm) or "").startswith("sf") for nm in level_names) else blk["controls"]
        for k in keys:
            required.add(_project(k, level_names, plan))
    lost = [k for k in required if k not in set(el)]
    if lost:
        return f"index lacks {sorted(lost, key=str)[:3]} although rows with that combination were drawn in some resample"
    return None


def _base(nm):
    """Map a MetricFrame level name to the plan's feature id ('sf1', 'cf0')."""
    if nm is None:
        return None
    if nm.startswith("sensitive_feature_"):
        return "sf" + nm.rsplit("_", 1)[1]
    if nm.startswith("control_feature_"):
        return "cf" + nm.rsplit("_", 1)[1]
    return nm


def _project(fullkey, level_names, plan):
    """fullkey = (cf0.., sf0..) values of a by-group key (or (cf0..) of a control key);
    project to the named levels."""
    allnames = [f"cf{j}" for j in range(plan["ncf"])] + [f"sf{j}" for j in range(plan["nsf"])]
    pos = {nm: i for i, nm in enumerate(allnames)}
    return tuple(fullkey[pos[_base(nm)]] for nm in level_names)


def _row_key(plan, r, which):
    nsf, ncf = plan["nsf"], plan["ncf"]
    conv = (lambda v: str(v)) if plan["container"] == "array" else (lambda v: v)
    cf = tuple(conv(plan["feats"][nsf + j][r]) for j in range(ncf))
    if which == "control":
        return cf
    return cf + tuple(conv(plan["feats"][j][r]) for j in range(nsf))


def _parse_blocks(ctx, plan, log):
    """Split the spy call log into 1 + n_boot blocks: overall call(s) followed by group calls
    whose row multisets partition the same rows."""
    n, B = plan["n"], plan["n_boot"]
    first = f"m_{plan['metrics'][0]}"
    per_metric = {}
    for m, rows, val in log:
        per_metric.setdefault(m, []).append((rows, val))
    counts = {m: len(v) for m, v in per_metric.items()}
    if len(set(counts.values())) != 1:
        ctx.obs["parse_reason"] = f"metrics were invoked a different number of times: {counts}"
        return None
    calls = per_metric[first]
    blocks = []
    i = 0
    while i < len(calls):
        blk = {"rows": [], "overall": {}, "groups": {}, "controls": set()}
        # overall part
        acc = []
        j = i
        while j < len(calls) and len(acc) < n:
            acc += calls[j][0]
            j += 1
        if len(acc) != n:
            ctx.obs["parse_reason"] = f"block {len(blocks)}: overall calls cover {len(acc)} rows, expected n={n}"
            return None
        ov_calls = list(range(i, j))
        # group part
        acc2 = []
        k = j
        while k < len(calls) and len(acc2) < n:
            acc2 += calls[k][0]
            k += 1
        if sorted(acc2) != sorted(acc):
            ctx.obs["parse_reason"] = (f"block {len(blocks)}: group calls do not partition the rows of the overall call(s) "
                                       f"({len(acc2)} vs {len(acc)} rows)")
            return None
        blk["rows"] = acc
        for c in ov_calls:
            rows = calls[c][0]
            key = _row_key(plan, rows[0], "control")
            if any(_row_key(plan, r, "control") != key for r in rows):
                ctx.obs["parse_reason"] = "an overall call mixes rows of different control-feature values"
                return None
            blk["overall"][key] = {m: per_metric[m][c][1] for m in per_metric}
            blk["controls"].add(key)
        for c in range(j, k):
            rows = calls[c][0]
            key = _row_key(plan, rows[0], "group")
            if any(_row_key(plan, r, "group") != key for r in rows):
                ctx.obs["parse_reason"] = "a by-group call mixes rows of different groups"
                return None
            blk["groups"][key] = {m: per_metric[m][c][1] for m in per_metric}
        blocks.append(blk)
        i = k
    if len(blocks) != 1 + B:
        ctx.obs["parse_reason"] = f"{len(blocks) - 1} resamples were evaluated, n_boot={B}"
        return None
    return blocks


def _bracket(vals, c, q):
    v = np.asarray([x for x in vals if x == x], dtype=float)
    if len(v) == 0:
        return None if c != c else "value reported for a cell that is empty in every resample"
    if c != c:
        return "NaN reported although the cell has values"
    Bn = len(v)
    eps = 1e-9
    if c < v.min() - eps or c > v.max() + eps:
        return f"{c} outside [{v.min()}, {v.max()}]"
    if (v <= c + eps).sum() / Bn < q - 1.0 / Bn - 1e-12:
        return f"only {(v <= c + eps).sum()}/{Bn} resample values <= {c} for q={q}"
    if (v < c - eps).sum() / Bn > q + 1.0 / Bn + 1e-12:
        return f"{(v < c - eps).sum()}/{Bn} resample values < {c} for q={q}"
    return None


def _bracket_checks(ctx, plan, res, resamples):
    """Every reported quantile of every metric against the per-resample values the spies computed."""
    qs = plan["quantiles"]
    for kind in plan["metrics"]:
        mname = f"m_{kind}"
        okp, pv, okc, cv, _ = res["overall"]
        if okc and isinstance(cv, list) and len(cv) == len(qs) and plan["ncf"] == 0:
            vals = [blk["overall"].get((), {}).get(mname, float("nan")) for blk in resamples]
            for q, e in zip(qs, cv):
                c = _cell(e, plan, mname)
                if c is None:
                    continue
                msg = _bracket(vals, c, q)
                if msg:
                    ctx.fail("C18.quantile_bracket", f"overall_ci[{mname}] q={q}: {msg}")
                    return
                if abs(float(np.quantile(vals, q)) - c) > 1e-12:
                    ctx.probe("quantile_not_numpy_default")
        okp, pv, okc, cv, _ = res["by_group"]
        if okc and isinstance(cv, list) and len(cv) == len(qs):
            for q, e in zip(qs, cv):
                if isinstance(e, pd.DataFrame):
                    if mname not in e.columns:
                        break
                    ser = e[mname]
                elif isinstance(e, pd.Series):
                    ser = e
                else:
                    break
                level_names = list(ser.index.names)
                for ix in ser.index:
                    key = ix if isinstance(ix, tuple) else (ix,)
                    vals = []
                    for blk in resamples:
                        hit = [v for k, v in blk["groups"].items() if _project(k, level_names, plan) == key]
                        vals.append(hit[0][mname] if hit else float("nan"))
                    msg = _bracket(vals, float(ser[ix]), q)
                    if msg:
                        ctx.fail("C18.quantile_bracket", f"by_group_ci[{mname}][{key}] q={q}: {msg}")
                        return


def shrink_candidates(plan):
    if plan.get("scribble"):
        yield dict(copy.deepcopy(plan), scribble=False)
    if plan.get("read_order"):
        yield dict(copy.deepcopy(plan), read_order=None)
    p = plan

    def mod(**kw):
        q = copy.deepcopy(p)
        q.update(kw)
        return q

    if p.get("fresh"):
        yield mod(fresh=False)
    if p.get("row_tag"):
        yield mod(row_tag=False)
    if p["ncf"] > 0:
        yield mod(ncf=p["ncf"] - 1, feats=p["feats"][:p["nsf"] + p["ncf"] - 1])
    if p["nsf"] > 1:
        yield mod(nsf=p["nsf"] - 1, feats=p["feats"][1:])
    if len(p["metrics"]) > 1:
        for k in range(len(p["metrics"])):
            yield mod(metrics=[m for j, m in enumerate(p["metrics"]) if j != k])
    if p["form"] == "dict" and len(p["metrics"]) == 1:
        yield mod(form="dict1")
    if len(p["quantiles"]) > 1:
        for k in range(len(p["quantiles"])):
            yield mod(quantiles=[q for j, q in enumerate(p["quantiles"]) if j != k])
    for nb in (1, 2, 3, 5, 8):
        if nb < p["n_boot"]:
            yield mod(n_boot=nb)
    n = p["n"]
    for m in (8, n // 2, n - 1):
        if 4 <= m < n:
            yield mod(n=m, feats=[c[:m] for c in p["feats"]], ypred=p["ypred"][:m])
    if p["container"] != "df":
        yield mod(container="df")
    for j, col in enumerate(p["feats"]):
        vals = sorted(set(map(str, col)))
        if len(vals) > 2:
            keep = col[0]
            other = [v for v in col if v != keep][0]
            yield mod(feats=[c if i != j else [v if v in (keep, other) else other for v in c] for i, c in enumerate(p["feats"])])
