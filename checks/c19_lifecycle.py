"""C19 - estimator life cycle: fit depends on parameters and data, not on call history.

Model-based simulation: generated operation histories (fit on several data sets,
predict-type calls, restart through pickle, clone, ambient-RNG perturbation, a
planned clock) against a trivial reference model whose expected behaviour is that
of a fresh, identically configured estimator fitted once on the last data set.
"""

from __future__ import annotations

import copy
import itertools
import random

import numpy as np
import pandas as pd

from sim import kernel, seams
from sim.kernel import HarnessError
from checks.c08_expgrad import gen_dataset, make_moment

PROPERTY = "C19"

TIERS = {
    "quick": {"runs": 700, "wall_cap_s": 75, "det_seeds": 16, "fresh_every": 175},
    "thorough": {"runs": 16000, "wall_cap_s": 800, "det_seeds": 128, "det_extra_workers": 4, "fresh_every": 25},
}

CLASSES = ["TO", "EG", "GS", "CR", "ADVC", "ADVR", "EGR"]
OPK = ["fit0", "fit1", "fit2", "predict", "predict_none", "restart", "clone", "ambient"]

RULE = (
    "one case = one seeded plan: an estimator class in {ThresholdOptimizer, ExponentiatedGradient (classification and BoundedGroupLoss regression), GridSearch, "
    "CorrelationRemover, AdversarialFairnessClassifier, AdversarialFairnessRegressor}, a configuration, a pool of 2-3 data "
    "sets (different rows/groups/width) and a history of 2-8 operations from {fit(D_k), predict-type(X', seed), "
    "predict(X', None), restart via pickle, clone, ambient RNG perturbation} under a planned clock; the first seeds "
    "enumerate every history of length <=2 (thorough: <=4) over {fit(D1), fit(D2), predict, restart, clone} per class, the rest "
    "are random histories over all operation kinds incl. twin (another instance), scribble (caller overwrites its arrays) and "
    "in-place edits of the reused query buffer. After every operation the estimator is "
    "compared with a fresh identically configured estimator fitted once on the last data set. Non-trivial = >=1 "
    "operation executed and >=1 simulator decision consumed (clock read, restart, ambient perturbation); distinct = "
    "distinct (class, fitted?, last data set, origin in {ctor, clone, restart}, #fits<=2) x operation-kind transitions "
    "are reported under 'transitions', distinct abstract histories under distinct_nontrivial."
)
COMPONENTS = {
    "real": ["ThresholdOptimizer", "ExponentiatedGradient", "GridSearch", "CorrelationRemover",
             "AdversarialFairnessClassifier/Regressor (torch engine, CPU)", "reduction moments", "sklearn.clone", "pickle",
             "sklearn LogisticRegression (half of the runs)"],
    "stub": ["base learners -> ExactClassifier / ScoreStub (other half)", "time() -> SimClock", "ambient numpy/torch RNG perturbation"],
}
ASSUMPTIONS = [
    "restart is exercised for ThresholdOptimizer/ExponentiatedGradient/GridSearch/CorrelationRemover only",
    "adversarial estimators: warm_start=False, list-specified torch models, integer random_state",
    "oracle ties are resolved by a fixed rule in this check (peer freedom is C08/C09's subject)",
    "agreement tolerance 1e-12 on predictions and fitted attributes (torch parameters: exact)",
]


# --------------------------------------------------------------------------
# plan generation


def _cls_dataset(rng, both_labels_per_group):
    rows = gen_dataset(rng, nmin=10, nmax=30, need_both_labels_per_group=both_labels_per_group)
    return {"rows": rows}


def _derived_dataset(rng, base, k):
    """Same feature rows (and, at run time, the very same X object) as data set k, with other
    labels and/or another grouping - e.g. auditing one data set against a second attribute."""
    rows = base["rows"]
    groups = sorted({r[1] for r in rows})
    for _ in range(50):
        mode = rng.choice(["groups", "labels", "both"])
        new = []
        for (x, g, y) in rows:
            if mode in ("groups", "both") and rng.random() < 0.5:
                g = rng.choice(groups)
            if mode in ("labels", "both") and rng.random() < 0.3:
                y = 1 - y
            new.append((x, g, y))
        gs = {r[1] for r in new}
        if len(gs) >= 2 and all({r[2] for r in new if r[1] == g} == {0, 1} for g in gs) and new != rows:
            return {"rows": new, "x_from": k}
    return {"rows": rows, "x_from": k}


def _cr_dataset(rng, width):
    n = rng.randint(6, 20)
    return {"X": [[round(rng.uniform(-2, 2), 3) for _ in range(width)] for _ in range(n)]}


def _adv_dataset(rng, d, regression):
    n = rng.randint(8, 24)
    X = [[round(rng.uniform(-1, 1), 3) for _ in range(d)] for _ in range(n)]
    if regression:
        y = [round(rng.uniform(-1, 1) + 0.013, 4) for _ in range(n)]
    else:
        # the data sets of one pool may differ in target kind (binary / three classes / another binary encoding):
        # a refit must follow the data of the last fit
        labels = rng.choice([[0, 1], [0, 1], [0, 1, 2], [1, 2]])
        y = [labels[i % len(labels)] for i in range(n)]
        rng.shuffle(y)
    a = [(i // 2) % 2 for i in range(n)]
    return {"X": X, "y": y, "a": a}


def _history(rng, cls, index, ndata, tier="quick"):
    kinds = ["fit0", "fit1", "predict", "predict_none", "restart", "clone", "ambient", "scribble", "twin"]
    if ndata > 2:
        kinds.append("fit2")
    if cls in ("ADVC", "ADVR"):
        kinds.remove("restart")
    # stratified: every history of length <= 3 (per class) first
    # complete enumeration first: quick = all histories of length <= 2 (30 per class), thorough = length <= 4 (780 per
    # class); every later index is a random history of 2-8 operations over all operation kinds
    lengths = (1, 2, 3, 4) if tier == "thorough" else (1, 2)
    small = [h for L in lengths for h in itertools.product(["fit0", "fit1", "predict", "restart", "clone"], repeat=L)]
    j = index // len(CLASSES)
    if j < len(small):
        h = [k for k in small[j] if not (k == "restart" and cls in ("ADVC", "ADVR"))]
        return list(h) + ["predict"]
    L = rng.randint(2, 8)
    h = [rng.choice(kinds) for _ in range(L)]
    if not any(k.startswith("fit") for k in h):
        h.insert(0, rng.choice(["fit0", "fit1"]))
    r = rng.random()
    if r < (0.5 if cls == "TO" else 0.3):
        # another instance acts between a fit and a later prediction of the estimator under test
        i = next(j for j, k in enumerate(h) if k.startswith("fit"))
        h[i + 1:i + 1] = rng.choice([["twin", "predict"], ["predict", "twin", "predict"], ["twin", "scribble", "predict"]])
    return h


def gen_plan(seed, index, tier):
    rng = random.Random(seed)
    cls = CLASSES[index % len(CLASSES)]
    ndata = rng.choice([2, 2, 3])
    plan = {"v": 1, "cls": cls}
    base = rng.choice(["exact", "lr"])
    if cls == "TO":
        base = rng.choice(["exact", "exact", "lr"])
        cons = rng.choice(["demographic_parity", "equalized_odds", "true_positive_rate_parity", "false_negative_rate_parity"])
        plan["cfg"] = {"base": base, "constraints": cons,
                       "objective": rng.choice(["accuracy_score", "balanced_accuracy_score"]),
                       "grid_size": rng.choice([5, 10, 40]), "flip": rng.random() < 0.3, "prefit": rng.random() < 0.3,
                       "pm": rng.choice(["auto", "auto", "auto", "predict_proba"]),
                       "stub_method": rng.choice(["predict_proba", "decision_function", "both", "both", "both"])}
        if plan["cfg"]["pm"] == "predict_proba":
            plan["cfg"]["stub_method"] = "predict_proba"
        plan["data"] = [_cls_dataset(rng, True) for _ in range(ndata)]
        if rng.random() < 0.35:
            plan["data"][1] = _derived_dataset(rng, plan["data"][0], 0)
    elif cls in ("EG", "GS"):
        base = rng.choice(["exact", "lr", "nested"])
        plan["cfg"] = {"base": base, "moment": rng.choice(["DP", "EO", "TPR", "ERP"]), "bound": rng.choice([0.01, 0.05])}
        if cls == "EG":
            plan["cfg"].update(eps=rng.choice([0.05, 0.1]), max_iter=rng.choice([3, 6, 10]),
                               nu=rng.choice([None, 0.0, 1e-3, 0.05, 0.05]), eta0=2.0, lp=rng.random() < 0.6,
                               objective_costs=rng.choice([None, None, {"fp": 1.0, "fn": 1.0}, {"fp": 0.3, "fn": 0.7}]))
        else:
            plan["cfg"].update(grid_size=rng.choice([3, 6, 10]), grid_limit=rng.choice([1.0, 2.0]), cw=rng.choice([0.25, 0.5]))
        plan["data"] = [_cls_dataset(rng, True) for _ in range(ndata)]
        if rng.random() < 0.35:
            plan["data"][1] = _derived_dataset(rng, plan["data"][0], 0)
    elif cls == "EGR":
        plan["cfg"] = {"base": base, "loss": rng.choice(["square", "abs"]), "upper_bound": rng.choice([0.03, 0.08, 0.15]),
                       "eps": rng.choice([0.05, 0.1]), "max_iter": rng.choice([4, 8, 12]), "nu": rng.choice([None, 1e-3, 0.05, 0.05]),
                       "eta0": 2.0, "lp": rng.random() < 0.4}
        plan["data"] = []
        for _ in range(ndata):
            ds = _cls_dataset(rng, False)
            ds["rows"] = [(r[0], r[1], rng.choice([0.0, 0.2, 0.4, 0.6, 0.8, 1.0, round(rng.random(), 2)])) for r in ds["rows"]]
            plan["data"].append(ds)
        if rng.random() < 0.4:
            # a second audit of the same X: as many rows, but the rows belong to other groups (and some targets moved)
            base_rows = plan["data"][0]["rows"]
            groups = sorted({r[1] for r in base_rows})
            for _ in range(50):
                new = [(x, rng.choice(groups) if rng.random() < 0.5 else g,
                        rng.choice([0.0, 0.2, 0.4, 0.6, 0.8, 1.0]) if rng.random() < 0.3 else y) for (x, g, y) in base_rows]
                if len({r[1] for r in new}) >= 2 and [r[1] for r in new] != [r[1] for r in base_rows]:
                    plan["data"][1] = {"rows": new, "x_from": 0}
                    break
    elif cls == "CR":
        widths = [rng.randint(3, 6) for _ in range(ndata)]
        if rng.random() < 0.5:
            widths = [widths[0]] * ndata
        nsens = rng.randint(1, 2)
        plan["cfg"] = {"sens": list(range(nsens)), "alpha": rng.choice([1.0, 0.5, 0.0]), "frame": rng.random() < 0.4}
        plan["data"] = [_cr_dataset(rng, w) for w in widths]
    else:
        d = rng.randint(1, 3)
        plan["cfg"] = {"pm": [rng.randint(1, 4), rng.choice(["sigmoid", "leaky_relu"])] if rng.random() < 0.5 else [],
                       "am": [], "opt": rng.choice(["SGD", "Adam"]), "lr": rng.choice([0.05, 0.2]),
                       "epochs": rng.choice([1, 2]), "batch_size": rng.choice([-1, 4, 8]), "rs": rng.randint(0, 10**6),
                       "constraints": rng.choice(["demographic_parity", "equalized_odds"]), "d": d,
                       "callbacks": rng.choice([None, None, "callable", "list"])}
        plan["data"] = [_adv_dataset(rng, d, cls == "ADVR") for _ in range(ndata)]
    plan["ops"] = _history(rng, cls, index, ndata, tier)
    plan["seeds"] = [rng.choice([0, 1, 2**32 - 1]) if rng.random() < 0.15 else rng.randint(0, 2**31 - 1) for _ in range(3)]
    plan["ambient"] = [[rng.choice(["np_reseed", "np_consume", "torch_reseed"]), rng.randint(0, 2**31 - 1)] for _ in range(8)]
    plan["clock"] = [[rng.choice(["fwd", "fwd", "back", "stall"]), rng.choice([1e-3, 1.0, 100.0, 1e6])] for _ in range(60)]
    plan["fresh"] = bool(TIERS[tier].get("fresh_every") and index % TIERS[tier]["fresh_every"] == 0)
    plan["edits"] = [rng.random() < 0.35 for _ in range(8)]
    if cls == "CR" and plan["cfg"]["frame"] and len(plan["cfg"]["sens"]) > 1 and "restart" in plan["ops"]:
        plan["fresh"] = True  # named columns: restore in other interpreters (other hash seeds) as well
    return plan


# --------------------------------------------------------------------------
# factories


def noop_callback(*args, **kwargs):
    """A documented form of the adversarial `callbacks` parameter: one callable (returns None = keep going)."""
    return None


def noop_callback_2(*args, **kwargs):
    return False


def _base_learner(kind, for_to=False, stub_method="predict_proba"):
    if kind == "lr":
        from sklearn.linear_model import LogisticRegression

        return LogisticRegression(max_iter=200)
    if kind == "nested" and not for_to:
        # composite base learner whose fit trains a nested learner in place (Pipeline-like)
        return seams.NestedPeer(seams.ExactClassifier(col=0, log_payload=False))
    return seams.ScoreStub(col=0, method=stub_method) if for_to else seams.ExactClassifier(col=0, log_payload=False)


def _xy(plan, k):
    """(X, y, groups) of data set k.  X objects are cached per run, and a derived data set
    (x_from) hands out the very same X object as its base."""
    ds = plan["data"][k]
    ctx = kernel.current()
    cache = ctx.scratch.setdefault("xcache", {})
    xkey = ds.get("x_from", k)
    if xkey not in cache:
        cache[xkey] = pd.DataFrame({"x": [float(r[0]) for r in plan["data"][xkey]["rows"]]})
    rows = ds["rows"]
    y = np.array([float(r[2]) if plan["cls"] == "EGR" else r[2] for r in rows])
    g = np.array([f"g{r[1]}" for r in rows])
    return cache[xkey], y, g


def factory(plan, twin=False):
    """The estimator of the plan.  twin=True: the estimator 'another caller' uses in the same process - same
    class, and for ThresholdOptimizer a base learner of the same class that offers the *other* soft-prediction method."""
    cls, cfg = plan["cls"], plan["cfg"]
    if cls == "TO":
        from fairlearn.postprocessing import ThresholdOptimizer

        sm = cfg.get("stub_method", "predict_proba")
        if twin:
            sm = "predict_proba" if sm == "decision_function" else "decision_function"
        base = _base_learner(cfg["base"], for_to=True, stub_method=sm)
        if cfg["prefit"]:
            X, y, g = _xy(plan, 0)
            base.fit(X, y)
        return ThresholdOptimizer(estimator=base, constraints=cfg["constraints"], objective=cfg["objective"],
                                  grid_size=cfg["grid_size"], flip=cfg["flip"], prefit=cfg["prefit"],
                                  predict_method=cfg.get("pm", "predict_proba"))
    if cls == "EG":
        from fairlearn.reductions import ExponentiatedGradient

        from fairlearn.reductions import ErrorRate

        objective = ErrorRate(costs=dict(cfg["objective_costs"])) if cfg.get("objective_costs") else None
        return ExponentiatedGradient(_base_learner(cfg["base"]), make_moment(cfg["moment"], "diff", cfg["bound"], 1.0),
                                     objective=objective, eps=cfg["eps"], max_iter=cfg["max_iter"], nu=cfg["nu"],
                                     eta0=cfg["eta0"], run_linprog_step=cfg["lp"])
    if cls == "EGR":
        from fairlearn.reductions import ExponentiatedGradient, BoundedGroupLoss, SquareLoss, AbsoluteLoss

        if cfg["base"] == "lr":
            from sklearn.linear_model import LinearRegression

            base = LinearRegression()
        else:
            base = seams.ExactRegressor(col=0, loss=cfg["loss"])
        loss = SquareLoss(0.0, 1.0) if cfg["loss"] == "square" else AbsoluteLoss(0.0, 1.0)
        return ExponentiatedGradient(base, BoundedGroupLoss(loss, upper_bound=cfg["upper_bound"]), eps=cfg["eps"],
                                     max_iter=cfg["max_iter"], nu=cfg["nu"], eta0=cfg["eta0"], run_linprog_step=cfg["lp"])
    if cls == "GS":
        from fairlearn.reductions import GridSearch

        return GridSearch(_base_learner(cfg["base"]), make_moment(cfg["moment"], "diff", cfg["bound"], 1.0),
                          constraint_weight=float(cfg["cw"]), grid_size=cfg["grid_size"], grid_limit=float(cfg["grid_limit"]))
    if cls == "CR":
        from fairlearn.preprocessing import CorrelationRemover

        ids = [f"c{j}" for j in cfg["sens"]] if cfg["frame"] else list(cfg["sens"])
        return CorrelationRemover(sensitive_feature_ids=ids, alpha=cfg["alpha"])
    from fairlearn.adversarial import AdversarialFairnessClassifier, AdversarialFairnessRegressor

    K = AdversarialFairnessClassifier if cls == "ADVC" else AdversarialFairnessRegressor
    cbs = {"callable": noop_callback, "list": [noop_callback, noop_callback_2]}.get(cfg.get("callbacks"))
    return K(backend="torch", callbacks=cbs, predictor_model=list(cfg["pm"]), adversary_model=list(cfg["am"]),
             predictor_optimizer=cfg["opt"], adversary_optimizer=cfg["opt"], learning_rate=cfg["lr"], epochs=cfg["epochs"],
             batch_size=cfg["batch_size"], constraints=cfg["constraints"], shuffle=False, warm_start=False,
             random_state=cfg["rs"])


def fit_args(plan, k):
    """The caller's training objects for data set k (kept, so that the caller can scribble on them later)."""
    cls = plan["cls"]
    ds = plan["data"][k]
    ctx = kernel.current()
    held = ctx.scratch.setdefault("train_objects", {})
    if cls in ("TO", "EG", "GS", "EGR"):
        X, y, g = _xy(plan, k)
        held[k] = [X, y, g]
        return (X, y), {"sensitive_features": g}
    if cls == "CR":
        X = _cr_X(plan, ds)
        held[k] = [X]
        return (X,), {}
    X, y, a = np.array(ds["X"], dtype=float), np.array(ds["y"]), np.array(ds["a"])
    held[k] = [X, y, a]
    return (X, y), {"sensitive_features": a}


def do_fit(plan, est, k):
    args, kw = fit_args(plan, k)
    return est.fit(*args, **kw)


def scribble_training_objects(ctx):
    """The caller overwrites, in place, every training object it handed to an earlier fit (a fitted model
    must not depend on what happens to the caller's arrays afterwards)."""
    n = 0
    for k, objs in list(ctx.scratch.get("train_objects", {}).items()):
        for o in objs:
            try:
                if isinstance(o, pd.DataFrame):
                    o.iloc[:, :] = 0.0
                elif isinstance(o, np.ndarray) and o.dtype.kind in "fiu":
                    o[...] = 0
                n += 1
            except (ValueError, TypeError):
                pass
    # later fits must see the planned content again: drop the cached (now scribbled) X objects
    ctx.scratch.pop("xcache", None)
    ctx.scratch["train_objects"] = {}
    return n


def _cr_X(plan, ds):
    X = np.array(ds["X"], dtype=float)
    if plan["cfg"]["frame"]:
        return pd.DataFrame(X, columns=[f"c{j}" for j in range(X.shape[1])])
    return X


def probe_set(plan, k):
    ds = plan["data"][k]
    cls = plan["cls"]
    if cls in ("TO", "EG", "GS", "EGR"):
        rows = ds["rows"][:10]
        X = pd.DataFrame({"x": [float(r[0]) for r in rows]})
        return X, {"sensitive_features": np.array([f"g{r[1]}" for r in rows])} if cls == "TO" else {}
    if cls == "CR":
        return _cr_X(plan, {"X": ds["X"][:8]}), {}
    return np.array(ds["X"][:8], dtype=float), {}


def shared_probe(plan, k, ctx):
    """The caller's reusable query buffer for data set k: one object per run, possibly edited in place."""
    cache = ctx.scratch.setdefault("probes", {})
    if k not in cache:
        cache[k] = probe_set(plan, k)
    return cache[k]


def reverse_probe_in_place(plan, k, ctx):
    Xp, kw = shared_probe(plan, k, ctx)
    orient = ctx.scratch.setdefault("orient", {})
    orient[k] = 1 - orient.get(k, 0)
    if isinstance(Xp, pd.DataFrame):
        Xp.iloc[:, :] = Xp.iloc[::-1].to_numpy()
    else:
        Xp[:] = Xp[::-1].copy()
    if "sensitive_features" in kw:
        kw["sensitive_features"][:] = kw["sensitive_features"][::-1].copy()


def copy_probe(probe):
    Xp, kw = probe
    return (Xp.copy(), {a: (v.copy() if hasattr(v, "copy") else v) for a, v in kw.items()})


def take(ret):
    """Copy an answer, then let the caller overwrite the returned object in place: an estimator must not hand
    out (views of) its internal arrays, or later answers would change."""
    if isinstance(ret, pd.DataFrame):
        val = ret.to_numpy(copy=True)
    else:
        val = np.array(ret, copy=True)
    try:
        if isinstance(ret, np.ndarray) and ret.flags.writeable and ret.dtype.kind in "fiub":
            ret[...] = 0
        elif isinstance(ret, pd.DataFrame):
            ret.iloc[:, :] = 0
    except (ValueError, TypeError):
        pass
    return val


def observe(plan, est, k, seed, probe=None):
    """Predict-type answers + key fitted attributes, as one canonical structure."""
    cls = plan["cls"]
    Xp, kw = probe if probe is not None else probe_set(plan, k)
    out = {}
    if cls == "TO":
        out["pmf"] = take(est._pmf_predict(Xp, **kw))
        out["pred"] = take(est.predict(Xp, random_state=seed, **kw))
        d = est.interpolated_thresholder_.interpolation_dict
        out["interp"] = {str(g): {a: (repr(v[a]) if "operation" in a else float(v[a])) for a in sorted(v.keys())} for g, v in d.items()}
    elif cls in ("EG", "EGR"):
        out["pmf"] = take(est._pmf_predict(Xp))
        out["pred"] = take(est.predict(Xp, random_state=seed))
        out["weights"] = [float(est.weights_[t]) for t in sorted(est.weights_.index)]
        out["gap"] = float(est.best_gap_)
        out["iters"] = [int(est.best_iter_), int(est.last_iter_), len(est.predictors_)]
    elif cls == "GS":
        out["pred"] = take(est.predict(Xp))
        out["lam"] = est.lambda_vecs_.to_numpy()
        out["obj"] = [float(o) for o in est.objectives_]
        out["best"] = int(est.best_idx_)
    elif cls == "CR":
        if isinstance(Xp, pd.DataFrame):
            # first the same rows as a plain array (legal after a fit on a frame), then the frame itself
            import warnings

            with warnings.catch_warnings():
                warnings.simplefilter("ignore")
                out["tr_array"] = take(est.transform(Xp.to_numpy()))
        out["tr"] = take(est.transform(Xp))
        out["beta"] = np.asarray(est.beta_)
        out["mean"] = np.asarray(est.sensitive_mean_)
    else:
        out["raw"] = take(est._raw_predict(Xp))
        out["pred"] = take(est.predict(Xp))
        eng = est.backendEngine_
        out["params"] = [p.detach().numpy().copy() for p in eng.predictor_model.parameters()] + \
                        [p.detach().numpy().copy() for p in eng.adversary_model.parameters()]
    return out


def same(a, b, tol=1e-12):
    if isinstance(a, dict):
        return isinstance(b, dict) and a.keys() == b.keys() and all(same(a[k], b[k], tol) for k in a)
    if isinstance(a, (list, tuple)):
        return isinstance(b, (list, tuple)) and len(a) == len(b) and all(same(x, y, tol) for x, y in zip(a, b))
    if isinstance(a, np.ndarray) or isinstance(b, np.ndarray):
        a, b = np.asarray(a), np.asarray(b)
        if a.shape != b.shape:
            return False
        if a.dtype.kind in "fiub" and b.dtype.kind in "fiub":
            return bool(np.allclose(a.astype(float), b.astype(float), atol=tol, rtol=0, equal_nan=True))
        return bool(np.array_equal(a, b))
    if isinstance(a, float) or isinstance(b, float):
        return (a != a and b != b) or abs(a - b) <= tol
    return a == b


def first_diff(a, b):
    if isinstance(a, dict) and isinstance(b, dict):
        for k in a:
            if k not in b or not same(a[k], b[k]):
                return k
    return "?"


def params_snapshot(est):
    snap = dict(est.get_params(deep=False))
    # the wrapped base learner is the user's object: fit must train copies of it, never the object itself
    base = snap.get("estimator")
    if base is not None:
        try:
            import pickle

            snap["estimator(state)"] = pickle.dumps(base)
        except Exception:  # noqa: BLE001 - unpicklable learner: identity check only
            pass
    return snap


def params_changed(before, after):
    changed = []
    for k, v in before.items():
        w = after.get(k, "<missing>")
        if v is w:
            continue
        simple = (int, float, str, bool, type(None))
        if isinstance(v, simple) and isinstance(w, simple) and type(v) is type(w) and v == w:
            continue
        if isinstance(v, bytes) and isinstance(w, bytes) and v == w:
            continue
        if isinstance(v, (list, tuple)) and isinstance(w, type(v)) and v == w and all(isinstance(x, simple) for x in v):
            continue
        changed.append(k)
    return changed


# --------------------------------------------------------------------------
# execution


def _is_nan_model(plan, obs):
    return plan["cls"] in ("ADVC", "ADVR") and any(np.isnan(p).any() for p in obs["params"])


def execute(plan, ctx):
    from sklearn.base import clone
    from sklearn.exceptions import NotFittedError

    cls = plan["cls"]
    nu_none = cls in ("EG", "EGR") and plan["cfg"].get("nu") is None
    refs = {}

    def reference(k, via_clone):
        """A fresh, identically configured estimator fitted once on data set k.  After a clone
        operation 'identically configured' means sklearn.clone of the factory's estimator (clone
        re-creates the wrapped estimator unfitted, which matters for prefit=True)."""
        key = (k, via_clone)
        if key not in refs:
            ctx.clock.force_stall = True
            fresh = factory(plan)
            if via_clone:
                fresh = clone(fresh)
            with ctx.clock_installed():
                ok, ret, site = ctx.call(do_fit, plan, fresh, k)
            ctx.clock.force_stall = False
            refs[key] = (ok, fresh, ret, site)
        return refs[key]

    exp_store = {}

    def oriented_probe(k, orient):
        Xp, kw = probe_set(plan, k)
        if orient:
            Xp = Xp.iloc[::-1].reset_index(drop=True) if isinstance(Xp, pd.DataFrame) else Xp[::-1].copy()
            kw = {a: v[::-1].copy() for a, v in kw.items()}
        return Xp, kw

    def expected(k, via_clone, seed, orient=None):
        """What a fresh identically configured estimator fitted once on data set k answers for (probe content,
        seed).  Computed as early as possible (before other instances ran in this process) and stored, so
        that ambient state polluted later cannot make the reference wrong in the same way as the estimator."""
        if orient is None:
            orient = ctx.scratch.setdefault("orient", {}).get(k, 0)
        key = (k, via_clone, seed, orient)
        if key not in exp_store:
            okr, fresh_, _r, _s = reference(k, via_clone)
            if not okr:
                return None
            okq, obs_, _ = ctx.call(observe, plan, fresh_, k, seed, oriented_probe(k, orient))
            exp_store[key] = obs_ if okq else None
        return exp_store[key]

    # pre-compute the expectations in the clean initial state of the run
    for k0 in sorted({int(o[3:]) for o in plan["ops"] if o.startswith("fit") and int(o[3:]) < len(plan["data"])}):
        for sd in plan["seeds"][:2]:
            for orient0 in (0, 1):
                expected(k0, False, sd, orient0)

    est = factory(plan)
    twin = None      # a second, independent estimator of the same class used by "another caller"
    shadows = []     # fitted estimators left behind by clone operations: (estimator, data set, answers then)
    cloned = False
    fitted_on = None
    origin = "ctor"
    nfits = 0
    fit_sets = []
    last_answers = {}
    amb = kernel.DecisionList(plan["ambient"], ["np_consume", 1])
    hist = []
    for opi, op in enumerate(plan["ops"]):
        pre_state = {"cls": cls, "fitted": fitted_on is not None, "ds": fitted_on, "origin": origin, "nfits": min(nfits, 2)}
        ctx.transition({"state": pre_state, "op": op})
        ctx.ops += 1
        sigbase = {"est": "EG" if cls == "EGR" else cls, "op": op.rstrip("012") if op.startswith("fit") else op, "origin": origin,
                   "refit": nfits > 0, "nu_none": nu_none,
                   "other_data_before": bool(op.startswith("fit") and any(d != int(op[3:]) for d in fit_sets))}
        hist.append(op)
        if op.startswith("fit"):
            k = int(op[3:])
            if k >= len(plan["data"]):
                k = 0
            okr, fresh, rret, rsite = reference(k, cloned)
            before = params_snapshot(est)
            with ctx.clock_installed():
                ok, ret, site = ctx.call(do_fit, plan, est, k)
            if not okr:
                # a fresh identically configured estimator cannot fit this data set either (e.g. clone of a
                # prefit=True ThresholdOptimizer holds an unfitted base estimator): no history involved
                ctx.probe("reference_fit_failed")
                ctx.event("op", i=opi, op=op, note="reference failed", same=(not ok and type(ret) is type(rret)))
                if ok:
                    ctx.probe("history_fit_succeeded_where_reference_failed")
                return
            if not ok:
                known = ctx.fail("C19.fit_raised",
                                 f"{cls}: {'re' if nfits else ''}fit (history {hist}) raised {type(ret).__name__}: {ret} at {site}; "
                                 f"a fresh identically configured estimator fits the same data",
                                 dict(sigbase, exc=type(ret).__name__, site=site))
                if not known:
                    return
                est = _resync(plan, ctx, k)
                origin = "resync"
            else:
                if ret is not est:
                    known = ctx.fail("C19.fit_return", f"{cls}.fit returned {type(ret).__name__}, not the estimator itself", sigbase)
                    if not known:
                        return
                ch = params_changed(before, params_snapshot(est))
                if ch:
                    known = ctx.fail("C19.params_changed", f"{cls}.fit changed constructor parameter(s) {ch} reported by get_params",
                                     dict(sigbase, params=ch))
                    if not known:
                        return
                okf, obs, site = ctx.call(observe, plan, est, k, plan["seeds"][0])
                ref_obs = expected(k, cloned, plan["seeds"][0], 0)
                if ref_obs is None:
                    raise HarnessError("reference estimator cannot be observed")
                if not okf:
                    ctx.fail("C19.observe_raised", f"{cls}: predict-type call after fit raised {type(obs).__name__}: {obs} at {site}",
                             dict(sigbase, exc=type(obs).__name__, site=site))
                    return
                if _is_nan_model(plan, ref_obs):
                    ctx.trivial("nan_model")
                    return
                if not same(obs, ref_obs):
                    known = ctx.fail("C19.refit_differs",
                                     f"{cls}: after history {hist} the model fitted on data set {k} differs from a fresh identically "
                                     f"configured estimator fitted once on it (first differing item: {first_diff(obs, ref_obs)})",
                                     sigbase)
                    if not known:
                        return
                    est = _resync(plan, ctx, k)
                    origin = "resync"
            if fit_sets and plan["data"][k].get("x_from", k) in {plan["data"][j].get("x_from", j) for j in fit_sets if j != k}:
                ctx.probe("refit_on_same_X_object_other_labels")
            if cls in ("TO", "EG", "GS", "EGR") and fit_sets:
                gnow = {r[1] for r in plan["data"][k]["rows"]}
                gprev = {r[1] for r in plan["data"][fit_sets[-1]]["rows"]}
                if gprev - gnow:
                    ctx.probe("refit_drops_a_group")
            fitted_on = k
            nfits += 1
            fit_sets.append(k)
            last_answers = {}
        elif op in ("predict", "predict_none"):
            if fitted_on is None:
                Xp, kw = probe_set(plan, 0)
                fn = est.transform if cls == "CR" else est.predict
                ok, ret, site = ctx.call(fn, Xp, **kw)
                if not ok and isinstance(ret, NotFittedError):
                    ctx.probe("not_fitted_error_raised")
                else:
                    ctx.probe("unfitted_predict_did_not_raise_NotFittedError")
            else:
                # the caller reuses one query buffer per data set; on some predict operations it edits the
                # buffer in place (rows reversed) first - answers must follow the content, not the object
                edits = ctx.scratch.setdefault("edit_decisions", kernel.DecisionList(plan.get("edits"), False))
                if edits.next():
                    reverse_probe_in_place(plan, fitted_on, ctx)
                    ctx.fault("query_buffer_mutated_in_place")
                    last_answers = {}
                probe = shared_probe(plan, fitted_on, ctx)
                odd = None
                if cls == "CR" and isinstance(probe[0], pd.DataFrame) and edits.next():
                    # an odd query first: the same frame with its columns in another order (it may be rejected or
                    # answered; either way it must not change what later queries return, and repeating it after
                    # the other queries must repeat its own answer)
                    odd_X = probe[0].iloc[:, ::-1].copy()
                    oko, odd_ans, _ = ctx.call(est.transform, odd_X.copy())
                    odd = (oko, np.array(odd_ans, copy=True) if oko else type(odd_ans).__name__, odd_X)
                    ctx.fault("odd_query_before")
                    # ... an array query in between, then the odd query again: it must repeat its answer
                    import warnings

                    with warnings.catch_warnings():
                        warnings.simplefilter("ignore")
                        ctx.call(est.transform, probe[0].to_numpy())
                    oko1, odd_ans1, _ = ctx.call(est.transform, odd_X.copy())
                    again1 = np.array(odd_ans1, copy=True) if oko1 else type(odd_ans1).__name__
                    if oko1 != oko or not same(odd[1], again1, tol=0):
                        ctx.fail("C19.predict_mutates", f"{cls}: the same transform call (frame with reordered columns) answered "
                                 f"differently after a transform of an array in between", sigbase)
                        return
                okd, d0, _ = ctx.call(observe, plan, est, fitted_on, plan["seeds"][1], probe)
                if op == "predict_none" and cls in ("TO", "EG", "EGR"):
                    ctx.call(est.predict, probe[0], **probe[1])
                    ctx.fault("ambient_rng")
                okd2, d1, site = ctx.call(observe, plan, est, fitted_on, plan["seeds"][1], probe)
                if not (okd and okd2):
                    bad = d0 if not okd else d1
                    ctx.fail("C19.observe_raised", f"{cls}: predict-type call raised {type(bad).__name__}: {bad}",
                             dict(sigbase, exc=type(bad).__name__))
                    return
                if not same(d0, d1, tol=0):
                    ctx.fail("C19.predict_mutates", f"{cls}: repeating a predict-type call with the same seed changed the answer / fitted state "
                             f"({first_diff(d0, d1)})", sigbase)
                    return
                if odd is not None:
                    oko2, odd_ans2, _ = ctx.call(est.transform, odd[2].copy())
                    again = np.array(odd_ans2, copy=True) if oko2 else type(odd_ans2).__name__
                    if oko2 != odd[0] or not same(odd[1], again, tol=0):
                        ctx.fail("C19.predict_mutates", f"{cls}: the same transform call (frame with reordered columns) answered "
                                 f"differently after other transform calls in between", sigbase)
                        return
                # identity-insensitive expectation: the fresh reference estimator on a *copy* of the buffer
                dref = None if ctx.scratch.get("resynced_or_known") else expected(fitted_on, cloned, plan["seeds"][1])
                if dref is not None:
                    okc = True
                    if okc and not same(d1, dref):
                        known = ctx.fail("C19.predict_differs", f"{cls}: after history {hist} a predict-type call on the caller's (reused) query "
                                         f"buffer differs from a fresh identically configured estimator's answer on a copy of it "
                                         f"({first_diff(d1, dref)})", dict(sigbase, refit=nfits > 1))
                        if not known:
                            return
                key = fitted_on
                if key in last_answers and not same(last_answers[key], d1, tol=0):
                    ctx.fail("C19.predict_drift", f"{cls}: the same (X', seed) gave a different answer later in the history {hist}", sigbase)
                    return
                last_answers[key] = d1
        elif op == "restart":
            if cls in ("ADVC", "ADVR"):
                continue
            before_obs = None
            if fitted_on is not None:
                okb, before_obs, _ = ctx.call(observe, plan, est, fitted_on, plan["seeds"][2])
            ok, ret, site = ctx.call(seams.restart_inproc, est)
            ctx.fault("restart_inproc")
            if not ok:
                ctx.fail("C19.pickle_raised", f"{cls}: pickle round trip raised {type(ret).__name__}: {ret} at {site}",
                         dict(sigbase, exc=type(ret).__name__))
                return
            est2, nbytes = ret
            if fitted_on is not None and before_obs is not None:
                oka, after_obs, site = ctx.call(observe, plan, est2, fitted_on, plan["seeds"][2])
                if not oka:
                    ctx.fail("C19.restart_differs", f"{cls}: restored estimator cannot predict: {type(after_obs).__name__}: {after_obs}", sigbase)
                    return
                if not same(before_obs, after_obs, tol=0):
                    ctx.fail("C19.restart_differs", f"{cls}: estimator restored from pickle predicts differently ({first_diff(before_obs, after_obs)})", sigbase)
                    return
                if plan.get("fresh"):
                    _fresh_restart(plan, ctx, est, fitted_on, sigbase)
            est = est2
            origin = "restart"
        elif op == "clone":
            before = params_snapshot(est)
            ok, ret, site = ctx.call(clone, est)
            if not ok:
                ctx.fail("C19.clone_raised", f"{cls}: sklearn.clone raised {type(ret).__name__}: {ret}", dict(sigbase, exc=type(ret).__name__))
                return
            if fitted_on is not None:
                oks, sobs, _ = ctx.call(observe, plan, est, fitted_on, plan["seeds"][2], copy_probe(shared_probe(plan, fitted_on, ctx)))
                if oks and len(shadows) < 2:
                    shadows.append((est, fitted_on, sobs, copy_probe(shared_probe(plan, fitted_on, ctx))))
            est = ret
            cloned = True
            fitted_on = None
            origin = "clone"
            last_answers = {}
        elif op == "scribble":
            before_obs = None
            if fitted_on is not None:
                probe = copy_probe(shared_probe(plan, fitted_on, ctx))
                okb, before_obs, _ = ctx.call(observe, plan, est, fitted_on, plan["seeds"][2], probe)
            nobj = scribble_training_objects(ctx)
            ctx.fault("training_arrays_overwritten_in_place", nobj)
            refs.clear()  # reference estimators were fitted on the same (now scribbled) objects: rebuild when needed
            if fitted_on is not None and before_obs is not None and okb:
                oka, after_obs, site = ctx.call(observe, plan, est, fitted_on, plan["seeds"][2], copy_probe(probe))
                if not oka or not same(before_obs, after_obs, tol=0):
                    ctx.fail("C19.depends_on_caller_arrays", f"{cls}: after the caller overwrote its training arrays in place the fitted "
                             f"estimator answers differently ({first_diff(before_obs, after_obs) if oka else type(after_obs).__name__})", sigbase)
                    return
        elif op == "twin":
            # interleaving with another caller: an independent estimator of the same class is fitted on
            # another data set and queried; nothing of it may leak into the estimator under test
            if twin is None:
                twin = factory(plan, twin=True)
            kt = (opi + 1) % len(plan["data"])
            with ctx.clock_installed():
                okt, _r, _s = ctx.call(do_fit, plan, twin, kt)
            if okt:
                ctx.call(observe, plan, twin, kt, plan["seeds"][0])
            ctx.fault("interleaved_second_instance")
        elif op == "ambient":
            kind, val = amb.next()
            ctx.fault("ambient_rng")
            if kind == "np_reseed":
                np.random.seed(val)
            elif kind == "np_consume":
                np.random.rand(1 + val % 5)
            else:
                import torch

                torch.manual_seed(val)
        else:
            raise HarnessError(f"unknown op {op}")
        for sh_est, sh_k, sh_obs, sh_probe in shadows:
            oks, now, _ = ctx.call(observe, plan, sh_est, sh_k, plan["seeds"][2], copy_probe(sh_probe))
            if not oks or not same(sh_obs, now, tol=0):
                ctx.fail("C19.clone_interferes", f"{cls}: a fitted estimator that was cloned answers differently after operation {op!r} "
                         f"on its clone / on another instance ({first_diff(sh_obs, now) if oks else type(now).__name__})", sigbase)
                return
        ctx.event("op", i=opi, op=op, fitted_on=fitted_on, origin=origin)
    ctx.state({"cls": cls, "hist": [h[:3] for h in hist][:5], "base": plan["cfg"].get("base")})


def _resync(plan, ctx, k):
    """After a *listed* failure replace the object under test by a freshly fitted one so the
    rest of the history is still explored."""
    fresh = factory(plan)
    ctx.clock.force_stall = True
    with ctx.clock_installed():
        do_fit(plan, fresh, k)
    ctx.clock.force_stall = False
    ctx.probe("resynchronised")
    ctx.scratch["resynced_or_known"] = True
    return fresh


def _fresh_restart(plan, ctx, est, k, sigbase):
    cls = plan["cls"]
    Xp, kw = probe_set(plan, k)
    seed = plan["seeds"][2]
    if cls == "TO":
        queries = [{"method": "_pmf_predict", "args": [Xp], "kwargs": kw},
                   {"method": "predict", "args": [Xp], "kwargs": dict(kw, random_state=seed)}]
    elif cls in ("EG", "EGR"):
        queries = [{"method": "_pmf_predict", "args": [Xp], "kwargs": {}},
                   {"method": "predict", "args": [Xp], "kwargs": {"random_state": seed}}]
    elif cls == "GS":
        queries = [{"method": "predict", "args": [Xp], "kwargs": {}}]
    else:
        queries = [{"method": "transform", "args": [Xp], "kwargs": {}}]
    here = [kernel.canon(np.asarray(getattr(est, q["method"])(*q["args"], **q["kwargs"]))) for q in queries]
    for hs in (("1", "2", "5", "11", "23") if cls == "CR" else ("1",)):
        ok, there = seams.restart_fresh(est, queries, hashseed=hs)
        ctx.fault("restart_fresh")
        ctx.fault("hashseed")
        if not ok:
            ctx.fail("C19.restart_fresh", f"{cls}: unpickling / predicting in a fresh interpreter failed: {there}", sigbase)
            return
        if there != here:
            ctx.fail("C19.restart_fresh", f"{cls}: estimator restored in a fresh interpreter (PYTHONHASHSEED={hs}) predicts differently", sigbase)
            return


# --------------------------------------------------------------------------


def shrink_candidates(plan):
    p = plan

    def mod(**kw):
        q = copy.deepcopy(p)
        q.update(kw)
        return q

    ops = p["ops"]
    if p.get("fresh"):
        yield mod(fresh=False)
    if any(p.get("edits") or []):
        yield mod(edits=[])
    if p.get("clock"):
        yield mod(clock=[])
    for size in (len(ops) // 2, 2, 1):
        if size < 1:
            continue
        for s in range(0, len(ops), size):
            cand = ops[:s] + ops[s + size:]
            if cand:
                yield mod(ops=cand)
    for i, o in enumerate(ops):
        if o in ("fit1", "fit2"):
            yield mod(ops=ops[:i] + ["fit0"] + ops[i + 1:])
        if o == "predict_none":
            yield mod(ops=ops[:i] + ["predict"] + ops[i + 1:])
    cfg = p["cfg"]
    if cfg.get("base") == "lr":
        yield mod(cfg=dict(cfg, base="exact"))
    for key, val in (("prefit", False), ("flip", False), ("lp", False), ("frame", False), ("pm", []), ("opt", "SGD"),
                     ("epochs", 1), ("batch_size", -1), ("max_iter", 3), ("grid_size", 3), ("constraints", "demographic_parity"),
                     ("moment", "DP")):
        if key in cfg and cfg[key] != val and not (key == "grid_size" and p["cls"] == "TO") and \
                not (key == "constraints" and p["cls"] == "TO" and False):
            yield mod(cfg=dict(cfg, **{key: val}))
    if p["cls"] in ("TO", "EG", "GS"):  # (EGR rows are not shrunk: labels are continuous)
        for k, ds in enumerate(p["data"]):
            rows = ds["rows"]
            n = len(rows)
            for size in (n // 2, n // 4, 1):
                if size < 1:
                    continue
                for s in range(0, n, size):
                    cand = rows[:s] + rows[s + size:]
                    gs = {r[1] for r in cand}
                    if len(cand) >= 6 and len(gs) >= 2 and all({r[2] for r in cand if r[1] == g} == {0, 1} for g in gs):
                        data = copy.deepcopy(p["data"])
                        data[k] = {"rows": cand}
                        yield mod(data=data)
