"""C09 - GridSearch: one faithful best response per grid point, argmin selection, exact delegation.

Every clause is a statement about the message history between GridSearch and its
peer (the base learner): how many requests, with which payload, to isolated
copies, what is recorded about each reply, and which fitted peer later serves predict.
"""

from __future__ import annotations

import copy
import random

import numpy as np
import pandas as pd

from sim import kernel, seams, refmodels
from sim.kernel import HarnessError
from checks.c08_expgrad import gen_dataset, make_moment, index_key, derive_rows, wrap, _labels

PROPERTY = "C09"

TIERS = {
    "quick": {"runs": 1100, "wall_cap_s": 75, "det_seeds": 16},
    "thorough": {"runs": 40000, "wall_cap_s": 800, "det_seeds": 128, "det_extra_workers": 4},
}

RULE = (
    "one case = one seeded plan (8-40 rows, 2-4 groups, parity moment with difference/ratio bound or "
    "BoundedGroupLoss(square|absolute), grid_size 2-60, grid_limit, constraint_weight, query set, tie-break bits, clock "
    "decisions) run through the real GridSearch.fit/predict/predict_proba against a recording exact oracle; "
    "non-trivial = fit completed and >=1 simulator decision consumed (oracle tie-break or clock read); distinct = "
    "distinct signatures (moment, ratio?, basis dimension, grid_size bucket, #dummy predictors bucket, tie fired?, "
    "position class of best_idx_)."
)
COMPONENTS = {
    "real": ["GridSearch.fit/predict/predict_proba", "_GridGenerator", "parity moments, BoundedGroupLoss, ErrorRate, MeanLoss",
             "copy.deepcopy of the estimator, sklearn DummyClassifier"],
    "stub": ["estimator -> ExactClassifier / ExactRegressor (recording exact learners, ties by plan)",
             "time() in grid_search -> SimClock"],
}
ASSUMPTIONS = [
    "reference signed weights / gamma / error written from the property text (C06/C07 formulas)",
    "payload weights accepted up to a positive common factor; labels compared on rows with non-zero weight only",
    "for BoundedGroupLoss the best response is judged against the reweighted loss lambda.gamma (objective lies in the span)",
    "the order in which grid columns are trained is recorded but not constrained",
]

CLASS_MOMENTS = ["DP", "TPR", "FPR", "EO", "ERP"]


def gen_plan(seed, index, tier):
    rng = random.Random(seed)
    if index % 5 == 4:
        kind = rng.choice(["BGL_square", "BGL_abs"])
    else:
        kind = CLASS_MOMENTS[index % 5] if index < 50 else rng.choice(CLASS_MOMENTS)
    ngroups = rng.randint(2, 4)
    rows = gen_dataset(rng, ngroups=ngroups)
    if kind.startswith("BGL"):
        # continuous targets in [0,1] on a coarse lattice (ties for the median peer)
        rows = [(r[0], r[1], rng.choice([0.0, 0.25, 0.5, 0.75, 1.0, round(rng.random(), 3)])) for r in rows]
    bound_kind = rng.choice(["diff", "ratio"])
    aligned = (not kind.startswith("BGL")) and rng.random() < 0.04
    if aligned:
        # labels perfectly aligned with two equally sized groups: a multiplier of magnitude 1 then cancels
        # every signed weight exactly (all-zero sample weights for that grid point)
        half = rng.randint(3, 8)
        rows = [(rng.randint(0, 2), 0, 1) for _ in range(half)] + [(rng.randint(0, 2), 1, 0) for _ in range(half)]
        rng.shuffle(rows)
        kind, bound_kind = "DP", "diff"
    vals = sorted({r[0] for r in rows})
    nq = rng.randint(1, 10)
    plan = {
        "v": 1, "rows": rows, "moment": kind, "bound_kind": bound_kind,
        "bound": rng.choice([0.0, 0.01, 0.05, 0.1, 0.2]), "ratio": 1.0 if bound_kind == "diff" else rng.choice([0.5, 0.8, 0.9, 1.0]),
        "grid_size": rng.choice([3, 5]) if aligned else rng.choice([2, 3, 4, 5, 7, 10, 13, 20, 31, 45, 60]),
        "grid_limit": rng.choice([1.0, 2.0]) if aligned else rng.choice([0.5, 1.0, 2.0, 3.7, 10.0]),
        "cw": rng.choice([0.0, 0.25, 0.5, 0.5, 1.0]),
        "xq": [rng.choice(vals + [99]) for _ in range(nq)],
        "xform": rng.choice(["df", "nd", "df2"]),
        "proba": rng.random() < 0.5,
        "ties": [rng.randint(0, 1) for _ in range(600)],
        "clock": [[rng.choice(["fwd", "fwd", "back", "stall"]), rng.choice([1e-3, 1.0, 100.0, 1e6])] for _ in range(130)],
        "stall_rerun": rng.random() < 0.25,
        "yform": rng.choice(["nd", "nd", "list", "series"]), "gform": rng.choice(["nd", "nd", "list", "series"]),
        "scramble_index": rng.random() < 0.4,
        "nested": (not kind.startswith("BGL")) and rng.random() < 0.3,
    }
    plan["twin_perm"] = rng.sample(range(len(rows)), len(rows)) if (index >= 50 and not kind.startswith("BGL") and rng.random() < 0.2) else None
    # history: an earlier fit of the same GridSearch object on the same X with other labels/groups
    plan["prior_rows"] = derive_rows(rng, rows) if (index >= 50 and not kind.startswith("BGL") and rng.random() < 0.25) else None
    if kind.startswith("BGL") and index >= 50 and rng.random() < 0.35:
        # regression: the earlier fit saw the same X and as many rows, but the rows belonged to other groups
        groups = sorted({r[1] for r in rows})
        pr = [(x, rng.choice(groups) if rng.random() < 0.5 else g, y) for (x, g, y) in rows]
        if len({r[1] for r in pr}) >= 2 and [r[1] for r in pr] != [r[1] for r in rows]:
            plan["prior_rows"] = pr
    # configuration seam: the caller supplies the multiplier grid itself (a subset of a generated grid, rescaled, under
    # column labels that are not 0..k-1), or shifts the generated grid by grid_offset; the per-column clauses
    # (request, payload, best response, records, argmin, delegation) must hold for those columns all the same
    r = rng.random()
    if index >= 50 and not aligned and r < 0.15:
        k = rng.randint(1, 6)
        plan["user_grid"] = {"take": [rng.randint(0, 59) for _ in range(k)], "scale": rng.choice([1.0, 0.5, 1.7]),
                             "labels": rng.choice(["rev", "gap", "str"])}
        plan["prior_rows"] = None
    elif index >= 50 and not aligned and r < 0.25:
        plan["grid_offset"] = [rng.choice([0.0, 0.0, 0.1, 0.5, 1.3]) for _ in range(6)]
        plan["prior_rows"] = None
    return plan


def build_X(rows_x, xform, plan=None):
    x = [float(v) for v in rows_x]
    if xform == "nd":
        return np.array(x).reshape(-1, 1)
    idx = _labels(plan, len(x), 1) if plan is not None else None
    if xform == "df2":
        return pd.DataFrame({"x": x, "noise": [float((i * 7) % 3) for i in range(len(x))]}, index=idx)
    return pd.DataFrame({"x": x}, index=idx)


def make_constraints(plan):
    from fairlearn.reductions import BoundedGroupLoss, SquareLoss, AbsoluteLoss

    if plan["moment"] == "BGL_square":
        return BoundedGroupLoss(SquareLoss(0.0, 1.0), upper_bound=0.1)
    if plan["moment"] == "BGL_abs":
        return BoundedGroupLoss(AbsoluteLoss(0.0, 1.0), upper_bound=0.1)
    return make_moment(plan["moment"], plan["bound_kind"], plan["bound"], plan["ratio"])


def fit_once(plan, ctx, stall=False):
    from fairlearn.reductions import GridSearch

    rows = plan["rows"]
    X = build_X([r[0] for r in rows], plan["xform"], plan)
    y = np.array([r[2] for r in rows])
    g = np.array([f"g{r[1]}" for r in rows])
    if plan["moment"].startswith("BGL"):
        est = seams.ExactRegressor(col=0, loss="square" if plan["moment"] == "BGL_square" else "abs")
    else:
        est = seams.ExactClassifier(col=0, proba=plan["proba"])
        if plan.get("nested"):
            est = seams.NestedPeer(est)  # composite peer: fit trains a nested learner in place
    extra_kw = {}
    ctx.c09_expect = None
    if plan.get("user_grid") or plan.get("grid_offset"):
        # the constraint index is only known once a moment has seen the data: a helper GridSearch (own moment, own
        # non-recording peer) generates the plain grid the supplied grid / the offset is built from
        hpeer = seams.ExactRegressor(col=0, loss="square") if plan["moment"].startswith("BGL") else \
            seams.ExactClassifier(col=0, log_payload=False)
        helper = GridSearch(hpeer, make_constraints(plan), constraint_weight=plan["cw"], grid_size=plan["grid_size"],
                            grid_limit=plan["grid_limit"])
        with ctx.clock_installed():
            okh, reth, siteh = ctx.call(helper.fit, X, y, sensitive_features=g)
        if not okh:
            return okh, reth, siteh, helper, est, X, y, g
        base = helper.lambda_vecs_
        if plan.get("user_grid"):
            ug = plan["user_grid"]
            take = [t % base.shape[1] for t in ug["take"]]
            grid = base.iloc[:, take].copy() * float(ug["scale"])
            k = len(take)
            grid.columns = {"rev": list(range(k - 1, -1, -1)), "gap": [3 * (k - j) + 1 for j in range(k)],
                            "str": [f"p{(j * 5) % 11}_{j}" for j in range(k)]}[ug["labels"]]
            extra_kw["grid"] = grid
            ctx.c09_expect = grid.copy()
            ctx.fault("caller_supplied_grid")
        else:
            off = plan["grid_offset"]
            offset = pd.Series([float(off[j % len(off)]) for j in range(len(base.index))], index=base.index)
            extra_kw["grid_offset"] = offset
            ctx.c09_expect = base.add(offset, axis="index")
            ctx.fault("grid_offset")
    gs = GridSearch(est, make_constraints(plan), constraint_weight=plan["cw"], grid_size=plan["grid_size"],
                    grid_limit=plan["grid_limit"], **extra_kw)
    ctx.ties.pos = 0
    ctx.clock.dl.pos = 0
    ctx.clock.force_stall = stall
    if plan.get("twin_perm") and len(plan["twin_perm"]) == len(rows):
        # ambient process state: another caller's independent GridSearch on a row-permuted copy of the data
        pr = [rows[i] for i in plan["twin_perm"]]
        twin = GridSearch(seams.ExactClassifier(col=0, log_payload=False), make_constraints(plan), constraint_weight=plan["cw"],
                          grid_size=2, grid_limit=plan["grid_limit"])
        with ctx.clock_installed():
            ctx.call(twin.fit, build_X([r[0] for r in pr], "df"), np.array([r[2] for r in pr]),
                     sensitive_features=np.array([f"g{r[1]}" for r in pr]))
        ctx.fault("interleaved_second_instance")
        ctx.ties.pos = 0
    if plan.get("prior_rows"):
        pr = plan["prior_rows"]
        with ctx.clock_installed():
            okp, retp, sitep = ctx.call(gs.fit, X, np.array([r[2] for r in pr]),
                                        sensitive_features=np.array([f"g{r[1]}" for r in pr]))
        if not okp:
            ctx.clock.force_stall = False
            return okp, retp, sitep, gs, est, X, y, g
        ctx.fault("refit_history")
        if plan["xq"] and plan["xq"][0] != 99:
            # ... and the caller used the earlier model (a prediction between the two fits); the judged delegation
            # clause below must still see the model of the last fit
            ctx.call(gs.predict, build_X(plan["xq"], plan["xform"]))
            ctx.fault("predict_between_fits")
    ctx.oracle_log = []
    with ctx.clock_installed():
        ok, ret, site = ctx.call(gs.fit, X, wrap(plan, y, "yform", 2), sensitive_features=wrap(plan, g, "gform", 3))
    ctx.clock.force_stall = False
    return ok, ret, site, gs, est, X, y, g


def _weighted_best_cost(xs, y, w, loss):
    """Minimum over piecewise-constant functions of sum_i w_i loss(y_i, c_{x_i})."""
    tot = 0.0
    for v in sorted(set(xs)):
        m = np.array([t == v for t in xs])
        ww, yy = w[m], y[m]
        if ww.sum() <= 0:
            continue
        if loss == "square":
            c = (ww * yy).sum() / ww.sum()
            tot += float((ww * (yy - c) ** 2).sum())
        else:
            tot += float(min((ww * np.abs(yy - c)).sum() for c in yy))
    return tot


def execute(plan, ctx):
    ok, ret, site, gs, est, X, y, g = fit_once(plan, ctx)
    ctx.ops += 1
    if not ok:
        ctx.fail("C09.fit_raised", f"fit raised {type(ret).__name__}: {ret} at {site}",
                 {"exc": type(ret).__name__, "site": site})
        return
    rows = plan["rows"]
    xs = [float(r[0]) for r in rows]
    n = len(rows)
    regression = plan["moment"].startswith("BGL")
    lam_df = gs.lambda_vecs_
    cols = list(lam_df.columns)
    # ---- 1. grid shape ------------------------------------------------------
    expect_lam = getattr(ctx, "c09_expect", None)
    supplied = bool(plan.get("user_grid"))
    shifted = bool(plan.get("grid_offset"))
    want = expect_lam.shape[1] if supplied else plan["grid_size"]
    if len(cols) != want or len(gs.predictors_) != want:
        ctx.fail("C09.grid_count", f"{len(cols)} multiplier vectors / {len(gs.predictors_)} predictors for "
                 f"{'a supplied grid of ' + str(want) + ' columns' if supplied else 'grid_size=' + str(want)}")
        return
    L = lam_df.to_numpy(dtype=float)
    if expect_lam is not None:
        # the multipliers that were trained are the caller's grid (labels and values) / the generated grid + offset
        same_labels = [str(c) for c in cols] == [str(c) for c in expect_lam.columns]
        E = expect_lam.reindex(lam_df.index).to_numpy(dtype=float) if set(map(str, lam_df.index)) == set(map(str, expect_lam.index)) else None
        if not same_labels or E is None or not np.allclose(L, E, atol=1e-12, rtol=0):
            ctx.fail("C09.grid_supplied", f"lambda_vecs_ is not the {'supplied grid' if supplied else 'generated grid shifted by grid_offset'}: "
                     f"columns {cols[:6]} vs {list(expect_lam.columns)[:6]}")
    if (L < -1e-12).any():
        ctx.fail("C09.grid_nonneg", f"negative multiplier {L.min()}")
    l1 = np.abs(L).sum(axis=0)
    if not (supplied or shifted) and (l1 > plan["grid_limit"] + 1e-9).any():
        ctx.fail("C09.grid_l1", f"L1 norm {l1.max()} exceeds grid_limit {plan['grid_limit']}")
    distinct = {tuple(np.round(L[:, j], 12)) for j in range(L.shape[1])}
    if regression:
        pairs_missing = False
    else:
        ev_groups = _expected_pairs(plan["moment"], y, g)
        pairs_missing = ev_groups["missing"]
    if len(distinct) != len(cols) and not supplied:
        ctx.fail("C09.grid_distinct",
                 f"only {len(distinct)} distinct multiplier vectors among grid_size={len(cols)} "
                 f"(moment={plan['moment']}, some (event, group) pair empty: {pairs_missing})",
                 {"empty_event_group_pair": bool(pairs_missing)})
    # ---- reference moment -----------------------------------------------------
    if regression:
        ref = refmodels.BGLRef(y, g, loss="square" if plan["moment"] == "BGL_square" else "abs")
        repo_ids = {str(i) for i in lam_df.index}
        if repo_ids != set(ref.ids):
            raise HarnessError(f"constraint index mismatch: {sorted(repo_ids)} vs {sorted(ref.ids)}")
    else:
        ref = refmodels.ParityRef(plan["moment"], y, g, ratio=plan["ratio"], bound=plan["bound"])
        repo_ids = {index_key(i) for i in lam_df.index}
        if repo_ids != set(ref.ids):
            if {(i[0], i[2]) for i in repo_ids} != {(i[0], i[2]) for i in ref.ids} or \
                {i[1] for i in repo_ids} == {i[1] for i in ref.ids}:
            # (same event names, so this is no naming difference: constraints exist for (event, group) pairs that
            # do not occur in the fitted data, or are missing for pairs that do)
                ctx.fail("C09.constraint_groups", f"multipliers/gammas_ are indexed by {sorted(repo_ids)} but the fitted data has the "
                         f"(event, group) pairs {sorted(ref.ids)}")
                return
            raise HarnessError(f"constraint index mismatch: {sorted(repo_ids)} vs {sorted(ref.ids)}")
        H = refmodels.ClassRef(ref, [r[0] for r in rows])
    # ---- 2. exactly-once requests with faithful payload, isolated copies ---------
    by_obj = {id(e["obj"]): e for e in ctx.oracle_log}
    if len(by_obj) != len(ctx.oracle_log):
        ctx.fail("C09.copy_isolation", "one peer instance served more than one fit request")
    served = set()
    n_dummy = 0
    objs_ref, gam_ref = [], []
    for j, c in enumerate(cols):
        pred_obj = gs.predictors_[j]
        pred_obj = getattr(pred_obj, "inner", pred_obj)  # composite peers: the nested learner is the recording one
        if regression:
            lam = {str(i): float(v) for i, v in lam_df[c].items()}
            w_ref = ref.weights(lam)
            y_ref = y.astype(float)
            const = len(np.unique(y_ref)) == 1
        else:
            lam = {index_key(i): float(v) for i, v in lam_df[c].items()}
            w_signed = ref.signed_weights(lam, with_objective=True)
            w_ref = np.abs(w_signed)
            y_ref = (w_signed > 0).astype(float)
            nz = w_ref > 1e-12
            const = len(np.unique(y_ref[nz])) <= 1
            if not nz.any():
                ctx.probe("grid_point_with_all_zero_weights")
        entry = by_obj.get(id(pred_obj))
        if entry is None:
            # no peer request for this column: legitimate only for a constant relabelling
            n_dummy += 1
            if not const and len(np.unique(y_ref)) > 1:
                ctx.fail("C09.request_missing", f"column {j}: no peer fit request although the relabelling is not constant")
                continue
            p = np.asarray(pred_obj.predict(X), dtype=float).reshape(-1)
            if len(np.unique(p)) != 1:
                ctx.fail("C09.dummy_not_constant", f"column {j}: predictor without a peer request is not constant")
        else:
            if id(pred_obj) in served:
                ctx.fail("C09.request_repeated", f"column {j} shares its predictor with another column")
            served.add(id(pred_obj))
            if entry["fit_count"] != 1:
                ctx.fail("C09.copy_isolation", f"column {j}: peer instance had already been fitted {entry['fit_count'] - 1}x")
            if entry["n"] != n:
                ctx.fail("C09.payload", f"column {j}: payload has {entry['n']} rows, data has {n}")
                continue
            yy, ww = entry["y"], entry["w"]
            if (ww < 0).any():
                ctx.fail("C09.payload", f"column {j}: negative sample weight sent to the peer")
            s_ref, s_got = w_ref.sum(), ww.sum()
            if s_ref <= 1e-12 or s_got <= 1e-12:
                if not (s_ref <= 1e-12 and s_got <= 1e-12):
                    ctx.fail("C09.payload", f"column {j}: weight mass {s_got} vs reference {s_ref}")
            else:
                if not np.allclose(ww / s_got, w_ref / s_ref, rtol=1e-9, atol=1e-12):
                    ctx.fail("C09.payload", f"column {j}: sample weights are not proportional to |w(lambda)|: "
                             f"got {np.round(ww / s_got, 6).tolist()[:8]} ref {np.round(w_ref / s_ref, 6).tolist()[:8]}")
                nzr = (w_ref / s_ref) > 1e-12
                if not regression and not np.array_equal(yy[nzr], y_ref[nzr]):
                    ctx.fail("C09.payload", f"column {j}: relabelling differs from 1[w>0] on rows with non-zero weight")
                if regression and not np.allclose(yy, y_ref, atol=0):
                    ctx.fail("C09.payload", f"column {j}: regression targets were altered")
        # ---- 3./4. best response and faithful records -------------------------------
        p = np.asarray(pred_obj.predict(X), dtype=float).reshape(-1)
        if regression:
            obj_j = ref.mean_loss(p)
            gam_j = ref.gamma(p)
            cost = float((w_ref * refmodels.loss_eval(ref.loss, y, p)).sum())
            best = _weighted_best_cost(xs, y.astype(float), w_ref, ref.loss)
            if cost > best + 1e-9 * max(1.0, abs(best)):
                ctx.fail("C09.best_response", f"column {j}: weighted loss {cost:.12g} > optimum {best:.12g}")
            gvec = np.array([gam_j[i] for i in ref.ids])
            rec_g = np.array([float(gs.gammas_[c][i]) for i in ref.ids])
        else:
            obj_j = ref.error(p)
            gvec = ref.gamma_vec(p)
            lv = H.lam_vec(lam)
            val = obj_j + float(lv @ gvec)
            best = float((H.err + H.G @ lv).min())
            if val > best + 1e-9:
                ctx.fail("C09.best_response", f"column {j}: error+lambda.gamma = {val:.12g} > min over H = {best:.12g}")
            rec = gs.gammas_[c]
            rec_map = {index_key(i): float(v) for i, v in rec.items()}
            rec_g = np.array([rec_map[i] for i in ref.ids])
        objs_ref.append(obj_j)
        gam_ref.append(gvec)
        if abs(float(gs.objectives_[j]) - obj_j) > 1e-12:
            ctx.fail("C09.records", f"objectives_[{j}]={gs.objectives_[j]!r} but predictor {j} really has {obj_j!r}")
        if not np.allclose(rec_g, gvec, atol=1e-12, rtol=0):
            ctx.fail("C09.records", f"gammas_[:, {j}] does not describe predictor {j}: max|d|={np.abs(rec_g - gvec).max():.3e}")
    extra = [e for e in ctx.oracle_log if id(e["obj"]) not in served]
    if extra:
        ctx.fail("C09.request_extra", f"{len(extra)} peer fit request(s) that no grid column owns")
    # ---- 5. argmin selection ------------------------------------------------------
    cw = plan["cw"]
    losses = np.array([(1 - cw) * o + cw * float(np.max(gv)) for o, gv in zip(objs_ref, gam_ref)])
    bi = gs.best_idx_
    if len(losses) == len(cols):
        if not (isinstance(bi, (int, np.integer)) and 0 <= bi < len(cols)):
            ctx.fail("C09.argmin", f"best_idx_={bi!r} is not a grid position")
            return
        if losses[bi] > losses.min() + 1e-12:
            ctx.fail("C09.argmin", f"best_idx_={bi} has tradeoff loss {losses[bi]:.12g}, minimum is {losses.min():.12g} at {int(losses.argmin())}")
    # ---- 6. delegation ------------------------------------------------------------
    Xq = build_X(plan["xq"], plan["xform"])
    best_obj = gs.predictors_[bi]
    is_peer = id(getattr(best_obj, "inner", best_obj)) in by_obj
    ctx.log_predicts = True
    ctx.predict_log = []
    ok, out, site = ctx.call(gs.predict, Xq)
    ctx.ops += 1
    log = list(ctx.predict_log)
    ctx.predict_log = []
    if not ok:
        ctx.fail("C09.predict_raised", f"predict raised {type(out).__name__}: {out} at {site}")
    else:
        ctx.log_predicts = False
        expect = np.asarray(best_obj.predict(Xq))
        ctx.log_predicts = True
        if len(log) != (1 if is_peer else 0) or (is_peer and log[0]["obj"] is not getattr(best_obj, "inner", best_obj)):
            ctx.fail("C09.delegation", f"predict was served by {[e['inst'] for e in log]}, expected exactly the predictor at best_idx_={bi}")
        elif is_peer and log[0]["x"] != [seams._key(float(v)) for v in plan["xq"]]:
            ctx.fail("C09.delegation", "the selected peer did not receive the query rows unchanged")
        if not np.array_equal(np.asarray(out), expect):
            ctx.fail("C09.delegation", "predict output is not the selected predictor's reply")
    if not regression and plan["proba"] and is_peer:
        ctx.predict_log = []
        ok, out, site = ctx.call(gs.predict_proba, Xq)
        ctx.ops += 1
        log = list(ctx.predict_log)
        if not ok:
            ctx.fail("C09.predict_raised", f"predict_proba raised {type(out).__name__}: {out} at {site}")
        else:
            ctx.log_predicts = False
            expect = best_obj.predict_proba(Xq)
            if len(log) != 1 or log[0]["obj"] is not getattr(best_obj, "inner", best_obj) or log[0]["method"] != "predict_proba":
                ctx.fail("C09.delegation", "predict_proba was not served exactly once by the selected predictor")
            if not np.array_equal(np.asarray(out), expect):
                ctx.fail("C09.delegation", "predict_proba output is not the selected predictor's reply")
    ctx.log_predicts = False
    # ---- 7. clock indifference -----------------------------------------------------
    if plan.get("stall_rerun"):
        saved_log = ctx.oracle_log
        ok2, _r, _s, gs2, *_ = fit_once(plan, ctx, stall=True)
        ctx.oracle_log = saved_log
        same = ok2 and gs2.best_idx_ == bi and np.array_equal(gs2.lambda_vecs_.to_numpy(), L) and \
            list(gs2.objectives_) == list(gs.objectives_)
        if not same:
            ctx.fail("C09.clock_dependence", "lambda_vecs_/objectives_/best_idx_ differ under an all-stall clock")
    ties = ctx.faults.get("oracle_tiebreak", 0)
    ctx.event("gs_done", best=int(bi), objectives=[float(o) for o in gs.objectives_], n_dummy=n_dummy,
              lam_digest=float(np.abs(L).sum()))
    pos = "first" if bi == 0 else ("last" if bi == len(cols) - 1 else "mid")
    ctx.state({"m": plan["moment"], "ratio": plan["bound_kind"] == "ratio", "dim": int(L.shape[0]),
               "gs": min(plan["grid_size"] // 10, 4), "dummy": min(n_dummy, 3), "tie": ties > 0, "pos": pos,
               "refit": bool(plan.get("prior_rows"))})
    ctx.transition({"m": plan["moment"], "pos": pos, "peer": is_peer})


def _expected_pairs(kind, y, g):
    groups = sorted(set(g.tolist()))
    if kind == "TPR":
        evs = [1]
    elif kind == "FPR":
        evs = [0]
    elif kind == "EO":
        evs = [0, 1]
    else:
        return {"missing": False}
    missing = any(not np.any((y == e) & (g == gr)) for e in evs for gr in groups)
    return {"missing": bool(missing)}


def shrink_candidates(plan):
    p = plan

    def mod(**kw):
        q = copy.deepcopy(p)
        q.update(kw)
        return q

    rows = p["rows"]
    if p.get("prior_rows"):
        yield mod(prior_rows=None)
    if p.get("user_grid"):
        yield mod(user_grid=None)
        if len(p["user_grid"]["take"]) > 1:
            yield mod(user_grid=dict(p["user_grid"], take=p["user_grid"]["take"][:len(p["user_grid"]["take"]) // 2]))
    if p.get("grid_offset"):
        yield mod(grid_offset=None)
    if p.get("twin_perm"):
        yield mod(twin_perm=None)
    if p.get("clock"):
        yield mod(clock=[])
    if p.get("stall_rerun"):
        yield mod(stall_rerun=False)
    if any(p["ties"]):
        yield mod(ties=[])
    for gsz in [s for s in (2, 3, 4, 5, 7, 10, 13, 20, 31, 45) if s < p["grid_size"]]:
        yield mod(grid_size=gsz)
    n = 0 if (p.get("prior_rows") or p.get("twin_perm")) else len(rows)
    for size in (n // 2, n // 4, 2, 1):
        if size < 1:
            continue
        for s in range(0, n, size):
            cand = rows[:s] + rows[s + size:]
            if len(cand) >= 4 and len({r[2] for r in cand}) >= 2 and len({r[1] for r in cand}) >= 2:
                yield mod(rows=cand)
    grps = sorted({r[1] for r in rows})
    if p.get("prior_rows") or p.get("twin_perm"):
        return
    if len(grps) > 2:
        yield mod(rows=[(r[0], min(r[1], grps[-2]), r[2]) for r in rows])
    vals = sorted({r[0] for r in rows})
    if len(vals) > 2:
        yield mod(rows=[(min(r[0], vals[-2]), r[1], r[2]) for r in rows])
    if len(p["xq"]) > 1:
        yield mod(xq=p["xq"][:1])
    if p["xform"] != "df":
        yield mod(xform="df")
    if p.get("scramble_index"):
        yield mod(scramble_index=False)
    if p.get("yform", "nd") != "nd":
        yield mod(yform="nd")
    if p.get("gform", "nd") != "nd":
        yield mod(gform="nd")
    if p["grid_limit"] != 2.0:
        yield mod(grid_limit=2.0)
    if p["cw"] != 0.5:
        yield mod(cw=0.5)
    if p["bound_kind"] == "ratio":
        yield mod(bound_kind="diff", ratio=1.0)
    if p["proba"]:
        yield mod(proba=False)
    if p.get("nested"):
        yield mod(nested=False)
