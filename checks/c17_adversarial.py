"""C17 - adversarial fit is the documented step schedule; predict stays in label space.

Three run modes (DESIGN.md 4/C17):
  schedule   real fit loop + StubEngine + scripted callbacks + SimClock
  equiv      real torch engine: fit(D) vs the same slices through partial_fit
  labels     predict/label space, StubEngine with planned raw outputs (boundaries, ties)
             and the real torch engine
"""

from __future__ import annotations

import copy
import logging
import random
from math import ceil

import numpy as np

from sim import kernel, seams
from sim.kernel import HarnessError

PROPERTY = "C17"

TIERS = {
    "quick": {"runs": 2500, "wall_cap_s": 70, "det_seeds": 16},
    "thorough": {"runs": 200000, "wall_cap_s": 780, "det_seeds": 128, "det_extra_workers": 4},
}

RULE = (
    "one case = one seeded plan (data layout, batch geometry, epochs, max_iter, 0-3 scripted callbacks with a planned "
    "stop step, progress_updates, a clock decision per time() read) executed against the real fit/partial_fit/predict "
    "code; the first seeds walk a mixed-radix grid over small (n, batch_size, epochs, max_iter). A case is non-trivial "
    "if it executed >=1 operation and consumed >=1 simulator-owned decision (clock read, callback stop, budget stop); "
    "distinct = distinct abstract signatures (mode, #batches bucket, epochs bucket, stop reason in "
    "{epochs done, budget, callback}, #callbacks, progress branch fired, clock pattern class, target kind)."
)
COMPONENTS = {
    "real": ["_AdversarialFairness.fit/partial_fit/predict/_raw_predict/__setup/_validate_input", "FloatTransformer",
             "PytorchEngine (equiv and labels runs, CPU, 1 thread)", "sklearn validate_data/type_of_target/OneHotEncoder"],
    "stub": ["BackendEngine -> StubEngine (schedule and boundary label runs)", "callbacks -> ScriptedCallback",
             "time() in _adversarial_mitigation -> SimClock"],
}
ASSUMPTIONS = [
    "shuffle=False only (the property excludes shuffling)",
    "first partial_fit slice is class-complete for y and the sensitive feature (documented precondition)",
    "TensorFlow engine not installed: only the engine-independent loop and the torch engine run",
    "binary positive class = second label in sorted order (OneHotEncoder drop='if_binary')",
    "list-specified torch models without dead-zone activations; NaN models are skipped and counted",
]

_LOGGER_NAME = "fairlearn.adversarial._adversarial_mitigation"


class _CountHandler(logging.Handler):
    def __init__(self):
        super().__init__(level=logging.INFO)
        self.n = 0

    def emit(self, record):
        record.getMessage()  # force formatting: a bad format string must surface
        self.n += 1


# --------------------------------------------------------------------------
# reference model (never calls fairlearn)


def ref_schedule(n, batch_size, epochs, max_iter, cb_returns):
    """Expected slices, callback invocations, stop reason."""
    bs = n if batch_size == -1 else batch_size
    batches = ceil(n / bs)
    ep = ceil(max_iter / batches) if epochs == -1 else epochs
    slices, cbs = [], []
    step = 0
    for _e in range(ep):
        for b in range(batches):
            lo, hi = b * bs, min((b + 1) * bs, n)
            slices.append((lo, hi))
            step += 1
            if max_iter != -1 and step >= max_iter:
                return slices, cbs, "budget"
            stop = False
            for k, ret in enumerate(cb_returns):
                cbs.append((k, step))
                if ret.get(str(step)) is True:
                    stop = True
            if stop:
                return slices, cbs, "callback"
    return slices, cbs, "epochs"


def encode(values, classes):
    """Reference label encoding: binary -> index of the class (n x 1), multiclass -> one-hot,
    continuous (classes is None) -> float column."""
    if classes is None:
        return [[float(v)] for v in values]
    if len(classes) == 1:
        return [[1.0] for _ in values]
    if len(classes) == 2:
        return [[float(classes.index(v))] for v in values]
    return [[1.0 if c == v else 0.0 for c in classes] for v in values]


# --------------------------------------------------------------------------
# plan generation

LABELSETS = {
    "bin_int": [0, 1],
    "bin_str": ["a", "b"],
    "bin_neg": [-1, 1],
    "bin_12": [1, 2],     # binary integer encodings whose categories are not {0, 1} but contain 0 or 1
    "bin_m10": [-1, 0],
    "mc_int": [0, 1, 2],
    "mc_str": ["x", "y", "z"],
    "mc4": [3, 5, 7, 9],
}


def _layout(n, ykind, akind):
    """Periodic label layout: y_i = i mod c, a_i = floor(i / c) mod k."""
    ys = LABELSETS.get(ykind)
    as_ = LABELSETS.get(akind)
    c = len(ys) if ys else 1
    y = [ys[i % c] for i in range(n)] if ys else [round(0.37 * ((i * 7) % 11) - 1.3 + 0.01 * i, 4) for i in range(n)]
    a = [as_[(i // c) % len(as_)] for i in range(n)] if as_ else [round(0.21 * ((i * 5) % 13) - 0.9, 4) for i in range(n)]
    return y, a


def _slice_ok(vals, kind):
    """Would sklearn's type_of_target of this slice equal the type of the whole column?"""
    if kind not in LABELSETS:
        return True
    k = len(LABELSETS[kind])
    d = len(set(vals))
    return d >= 3 if k >= 3 else True


def _first_complete(vals, kind):
    if kind not in LABELSETS:
        return True
    return len(set(vals)) == len(LABELSETS[kind])


def _clock_decisions(rng, n, bias_progress):
    out = []
    for _ in range(n):
        r = rng.random()
        if bias_progress and r < 0.5:
            out.append(["fwd", rng.choice([1.0, 100.0, 1e6])])
        elif r < 0.55:
            out.append(["fwd", rng.choice([1e-3, 1.0, 100.0, 1e6])])
        elif r < 0.8:
            out.append(["back", rng.choice([1e-3, 1.0, 100.0, 1e6])])
        else:
            out.append(["stall", 0.0])
    return out


STRAT = {
    # tier: (n values, #batch-size selectors, epochs, max_iter, planned stop step of callback 0)
    "quick": ([4, 5, 6, 7], 6, [1, 2, -1], [-1, 1, 2, 5], [None]),
    "thorough": ([4, 5, 6, 7, 8, 9], 8, [1, 2, 3, -1], [-1, 1, 2, 3, 5, 7], [None, 1, 2, 3, 5]),
}


def _n_strat(tier):
    ns, nb, eps, mis, stops = STRAT[tier]
    return len(ns) * nb * len(eps) * len(mis) * len(stops)


def _strat_geometry(j, tier):
    """Mixed-radix walk over the small geometries (complete for the listed value sets)."""
    ns, nb, eps, mis, stops = STRAT[tier]
    n = ns[j % len(ns)]
    j //= len(ns)
    bsel = j % nb
    j //= nb
    ep = eps[j % len(eps)]
    j //= len(eps)
    mi = mis[j % len(mis)]
    j //= len(mis)
    stop = stops[j % len(stops)]
    bs = [-1, 1, 2, 3, n, n + 3, n - 1, 4][bsel]
    return n, bs, ep, mi, stop


def gen_plan(seed, index, tier):
    rng = random.Random(seed)
    plan = {"v": 1}
    N_STRAT = _n_strat(tier)
    strat_stop = None
    if index < N_STRAT:
        mode = "schedule"
    else:
        mode = rng.choices(["schedule", "equiv", "labels"], [0.45, 0.35, 0.20])[0]
    plan["mode"] = mode
    if mode == "schedule":
        if index < N_STRAT:
            n, bs, ep, mi, strat_stop = _strat_geometry(index, tier)
            if ep == -1 and mi == -1:
                mi = 3
        else:
            n = rng.randint(4, 40)
            bs = rng.choice([-1, 1, 2, 3, 5, 8, n, n + 3])
            ep = rng.choice([1, 2, 3, -1])
            mi = rng.choice([-1, 1, 2, 5, 9, 100])
            if ep == -1 and mi == -1:
                mi = rng.choice([1, 2, 5, 9])
        ncb = rng.choice([0, 1, 1, 2, 3])
        cb_returns = [dict() for _ in range(ncb)]
        if ncb:
            # sprinkle None/False returns, and possibly one stop
            for k in range(ncb):
                for s in range(1, 14):
                    if rng.random() < 0.3:
                        cb_returns[k][str(s)] = False
            if rng.random() < 0.6:
                cb_returns[rng.randrange(ncb)][str(rng.randint(1, 12))] = True
            if rng.random() < 0.15:
                cb_returns[rng.randrange(ncb)][str(rng.randint(1, 12))] = True
        if strat_stop is not None:
            # stratified stop point: exactly one callback that stops at the planned step
            cb_returns = [{str(strat_stop): True}]
        pu = rng.choice([None, None, 0.5, 10])
        ykind = rng.choice(["bin_int", "bin_str", "mc_int", "mc_str", "cont", "bin_neg"])
        akind = rng.choice(["bin_int", "bin_str", "mc_int", "cont"])
        prior = 0 if index < N_STRAT else rng.choice([0, 0, 0, 1, 1, 2])
        if strat_stop is not None:
            ncb = 1
        plan.update(n=n, batch_size=bs, epochs=ep, max_iter=mi, cb_returns=cb_returns, progress_updates=pu,
                    prior_fits=prior, warm_start=(rng.random() < 0.5),
                    ykind=ykind, akind=akind, cb_as_callable=(ncb == 1 and rng.random() < 0.5),
                    d=rng.randint(1, 3), constraints=rng.choice(["demographic_parity", "equalized_odds"]))
        plan["clock"] = _clock_decisions(rng, 2 + 2 * 130, pu is not None)
        plan["losses"] = [[round(rng.random(), 3), round(rng.random(), 3)] for _ in range(20)]
        plan["xs"] = [[round(rng.uniform(-1, 1), 3) for _ in range(plan["d"])] for _ in range(n)]
    elif mode == "equiv":
        want_incomplete = rng.random() < 0.1
        for _attempt in range(200):
            ykind = rng.choice(["bin_int", "bin_str", "mc_int", "mc_str", "cont", "mc4", "bin_12", "bin_m10", "bin_neg"])
            akind = rng.choice(["bin_int", "bin_str", "mc_int", "cont", "bin_12", "bin_m10"])
            if want_incomplete and ykind not in ("mc_int", "mc_str", "mc4") and akind != "mc_int":
                continue
            n = rng.randint(6, 40)
            bs = rng.choice([-1, 2, 3, 5, 7, 8, 12, n, n + 3])
            ep = rng.choice([1, 2, 3, -1])
            mi = rng.choice([-1, -1, 2, 5, 9, 30])
            if ep == -1 and mi == -1:
                mi = rng.choice([2, 5, 9])
            ncb = rng.choice([0, 0, 1, 2])
            cb_returns = [dict() for _ in range(ncb)]
            if ncb and rng.random() < 0.5:
                cb_returns[rng.randrange(ncb)][str(rng.randint(1, 8))] = True
            y, a = _layout(n, ykind, akind)
            slices, _, _ = ref_schedule(n, bs, ep, mi, cb_returns)
            if len(slices) > 60:
                continue
            lo, hi = slices[0]
            if not (_first_complete(y[lo:hi], ykind) and _first_complete(a[lo:hi], akind)):
                continue
            later_bad = any(not (_slice_ok(y[l:h], ykind) and _slice_ok(a[l:h], akind)) for l, h in slices[1:])
            if later_bad != want_incomplete:
                continue
            break
        else:
            # fall back to a trivially complete geometry
            ykind, akind, n, bs, ep, mi, cb_returns, want_incomplete = "bin_int", "bin_int", 12, 4, 1, -1, [], False
        d = rng.randint(1, 4)
        min_slice = min(h - l for l, h in ref_schedule(n, bs, ep, mi, cb_returns)[0])

        def hidden():
            out = []
            for _ in range(rng.choice([0, 0, 1, 2])):
                out.append(rng.randint(2, 6))
                r = rng.random()
                if r < 0.2 and min_slice >= 2:
                    out.append("bn")       # BatchNorm1d: behaves differently in train and eval mode
                elif r < 0.35:
                    out.append("dropout")  # Dropout(0.3): ditto, and consumes the torch RNG while training
                out.append(rng.choice(["sigmoid", "leaky_relu"]))
            return out

        plan.update(n=n, batch_size=bs, epochs=ep, max_iter=mi, cb_returns=cb_returns, ykind=ykind, akind=akind, d=d,
                    later_slice_incomplete=want_incomplete, pm=hidden(), am=hidden(),
                    opt=rng.choice(["SGD", "Adam"]), lr=rng.choice([0.01, 0.05, 0.1]), alpha=rng.choice([0.0, 0.5, 1.0, 2.0]),
                    constraints=rng.choice(["demographic_parity", "equalized_odds"]), rs=rng.randint(0, 10**6),
                    progress_updates=rng.choice([None, None, 0.5]),
                    prior_fits=rng.choice([0, 0, 0, 1, 1, 2]), warm_start=(rng.random() < 0.5),
                    cb_peek=[rng.random() < 0.5 for _ in cb_returns], b_peek=rng.random() < 0.3,
                    classes_order=rng.choice(["sorted", "sorted", "reversed", "rotated"]),
                    public=rng.random() < 0.35)
        if "bn" in plan["pm"] + plan["am"] and plan["prior_fits"] and not plan["warm_start"]:
            plan["warm_start"] = True
        # history: the earlier fits of a re-initialising estimator saw a target of another kind (binary / multiclass /
        # continuous, other label encoding) - nothing of it may survive into the judged fit and its predictions
        r_kind = rng.random()
        if plan["prior_fits"] and not plan["warm_start"] and r_kind < 0.6:
            pool = [k for k in list(LABELSETS) + ["cont"] if k != ykind]
            if plan["public"] and mi == -1:
                pool = [k for k in pool if k != "cont"] if ykind != "cont" else []
            if pool:
                plan["prior_ykind"] = rng.choice(pool)
        plan["clock"] = _clock_decisions(rng, 2 + 2 * 125, plan["progress_updates"] is not None)
        plan["xs"] = [[round(rng.uniform(-1, 1), 3) for _ in range(d)] for _ in range(n)]
        plan["xq"] = [[round(rng.uniform(-1.5, 1.5), 3) for _ in range(d)] for _ in range(rng.randint(1, 8))]
    else:  # labels
        engine = rng.choice(["stub", "stub", "torch"])
        ykind = rng.choice(["bin_int", "bin_str", "bin_neg", "bin_12", "bin_m10", "mc_int", "mc_str", "mc4", "cont"])
        akind = rng.choice(["bin_int", "mc_int", "cont", "bin_12"])
        n = rng.randint(8, 24)
        d = rng.randint(1, 3)
        nq = rng.randint(3, 12)
        plan.update(engine=engine, n=n, ykind=ykind, akind=akind, d=d, nq=nq, rs=rng.randint(0, 10**6),
                    public=rng.random() < 0.5, epochs=rng.choice([1, 2]), batch_size=rng.choice([-1, 4, 8]),
                    lr=rng.choice([0.01, 0.1]))
        plan["xs"] = [[round(rng.uniform(-1, 1), 3) for _ in range(d)] for _ in range(n)]
        plan["xq"] = [[round(rng.uniform(-1.5, 1.5), 3) for _ in range(d)] for _ in range(nq)]
        c = len(LABELSETS[ykind]) if ykind in LABELSETS else 0
        raws = []
        for _ in range(nq):
            if c == 2:
                raws.append([rng.choice([0.5, 0.5 - 1e-7, 0.5 + 1e-7, 0.5 - 1e-12, 0.0, 1.0, 0.4999, 0.5001,
                                         round(rng.random(), 4)])])
            elif c >= 3:
                row = [round(rng.random(), 3) for _ in range(c)]
                r = rng.random()
                if r < 0.35:  # tied maxima
                    i, j = rng.sample(range(c), 2)
                    row[i] = row[j] = max(row) + 0.1
                elif r < 0.5:
                    row = [row[0]] * c
                raws.append(row)
            else:
                raws.append([round(rng.uniform(-3, 3), 4)])
        plan["raws"] = raws
        plan["clock"] = _clock_decisions(rng, 40, False)
    return plan


# --------------------------------------------------------------------------
# execution


def _data(plan, with_ids):
    n = plan["n"]
    y, a = _layout(n, plan["ykind"], plan["akind"])
    xs = plan["xs"]
    if len(xs) < n:
        xs = xs + [[0.0] * plan["d"]] * (n - len(xs))
    X = np.array([[float(i)] + list(xs[i]) if with_ids else list(xs[i]) for i in range(n)], dtype=float)
    return X, np.array(y), np.array(a)


def _classes(kind, values=None):
    """Sorted distinct labels actually present (None for continuous columns)."""
    if kind not in LABELSETS:
        return None
    if values is None:
        return sorted(LABELSETS[kind])
    return sorted(set(np.asarray(values).tolist()))


def _sig_clock(faults):
    return "".join(k[6] for k in ("clock_fwd", "clock_back", "clock_stall") if faults.get(k))


def execute(plan, ctx):
    mode = plan["mode"]
    if mode == "schedule":
        _exec_schedule(plan, ctx)
    elif mode == "equiv":
        _exec_equiv(plan, ctx)
    elif mode == "labels":
        _exec_labels(plan, ctx)
    else:
        raise HarnessError("unknown mode")


def _callbacks(plan):
    peek = plan.get("cb_peek") or []
    cbs = [seams.ScriptedCallback(k, r, peek=(k < len(peek) and peek[k])) for k, r in enumerate(plan["cb_returns"])]
    if not cbs:
        return None
    if plan.get("cb_as_callable") and len(cbs) == 1:
        return cbs[0]
    return cbs


def _run_schedule_once(plan, ctx, stall):
    """One real fit under the plan; returns the observed history."""
    from fairlearn.adversarial._adversarial_mitigation import _AdversarialFairness

    ctx.train_steps = []
    ctx.callback_log = []
    ctx.losses.pos = 0
    ctx.clock.dl.pos = 0
    ctx.clock.force_stall = stall
    X, y, a = _data(plan, with_ids=True)
    est = _AdversarialFairness(
        backend=seams.stub_engine_class(), epochs=plan["epochs"], batch_size=plan["batch_size"],
        max_iter=plan["max_iter"], shuffle=False, progress_updates=plan["progress_updates"],
        callbacks=_callbacks(plan), constraints=plan["constraints"], random_state=1,
        warm_start=bool(plan.get("warm_start", False)),
    )
    # history: earlier fit calls on the same estimator object; the observed fit must follow the same schedule
    for _ in range(plan.get("prior_fits", 0)):
        with ctx.clock_installed():
            okp, retp, sitep = ctx.call(est.fit, X, y, sensitive_features=a)
        if not okp:
            return {"ok": False, "ret": retp, "site": sitep, "est": est, "steps": [], "cbs": [], "inits": 0}
        ctx.train_steps = []
        ctx.callback_log = []
        ctx.losses.pos = 0
    inits0 = ctx.engine_inits
    with ctx.clock_installed():
        ok, ret, site = ctx.call(est.fit, X, y, sensitive_features=a)
    ctx.clock.force_stall = False
    return {"ok": ok, "ret": ret, "site": site, "est": est, "steps": copy.deepcopy(ctx.train_steps),
            "cbs": list(ctx.callback_log), "inits": ctx.engine_inits - inits0}


def _exec_schedule(plan, ctx):
    n = plan["n"]
    handler = _CountHandler()
    lg = logging.getLogger(_LOGGER_NAME)
    old_level, old_prop = lg.level, lg.propagate
    lg.addHandler(handler)
    lg.setLevel(logging.INFO)
    lg.propagate = False
    try:
        obs = _run_schedule_once(plan, ctx, stall=False)
        logged = handler.n
        obs_stall = _run_schedule_once(plan, ctx, stall=True)
    finally:
        lg.removeHandler(handler)
        lg.setLevel(old_level)
        lg.propagate = old_prop
    ctx.ops += 1
    slices, cbs, reason = ref_schedule(n, plan["batch_size"], plan["epochs"], plan["max_iter"], plan["cb_returns"])
    if reason == "budget":
        ctx.fault("budget_stop")
    if logged:
        ctx.probe("progress_logged", logged)
    y, a = _layout(n, plan["ykind"], plan["akind"])
    sig = {"mode": "schedule"}
    if not obs["ok"]:
        e = obs["ret"]
        ctx.fail("C17.schedule.fit_raised", f"fit raised {type(e).__name__}: {e} at {obs['site']}",
                 {"exc": type(e).__name__, "site": obs["site"]})
        return
    est = obs["est"]
    if obs["ret"] is not est:
        ctx.probe("fit_did_not_return_self")  # C19's subject, not gating here
    exp_rows = [list(range(lo, hi)) for lo, hi in slices]
    got_rows = [s["rows"] for s in obs["steps"]]
    if got_rows != exp_rows:
        ctx.fail("C17.schedule.slices",
                 f"train_step row slices differ: n={n} batch_size={plan['batch_size']} epochs={plan['epochs']} "
                 f"max_iter={plan['max_iter']} expected {len(exp_rows)} steps {exp_rows[:6]}.. got {len(got_rows)} {got_rows[:6]}..")
    else:
        ycls, acls = _classes(plan["ykind"], y), _classes(plan["akind"], a)
        for s, (lo, hi) in zip(obs["steps"], slices):
            ey, ea = encode(y[lo:hi], ycls), encode(a[lo:hi], acls)
            if not (np.allclose(s["y"], ey, atol=1e-9) and np.allclose(s["a"], ea, atol=1e-9)):
                ctx.fail("C17.schedule.payload", f"y/sensitive rows of slice {lo}:{hi} do not belong to the same rows as X")
                break
    if obs["cbs"] != cbs:
        ctx.fail("C17.schedule.callbacks",
                 f"callback invocations differ (reason={reason}): expected {cbs[:12]}.. got {obs['cbs'][:12]}.. "
                 f"(lens {len(cbs)} vs {len(obs['cbs'])})")
    if getattr(est, "n_iter_", None) != len(slices):
        ctx.fail("C17.schedule.n_iter", f"n_iter_={getattr(est, 'n_iter_', None)} expected {len(slices)}")
    if obs["inits"] != 1:
        ctx.probe("engine_initialised_more_than_once")  # not part of the property, recorded only
    # clock indifference: identical history under an all-stall clock
    if obs_stall["ok"] != obs["ok"] or [s["rows"] for s in obs_stall["steps"]] != got_rows or obs_stall["cbs"] != obs["cbs"] \
            or getattr(obs_stall["est"], "n_iter_", None) != getattr(est, "n_iter_", None):
        ctx.fail("C17.schedule.clock_dependence", "history under the planned clock differs from the all-stall clock")
    ctx.event("schedule_done", steps=len(got_rows), cbs=len(obs["cbs"]), n_iter=getattr(est, "n_iter_", None),
              reason=reason)
    bs = n if plan["batch_size"] == -1 else plan["batch_size"]
    batches = ceil(n / bs)
    ctx.state({"mode": "schedule", "batches": min(batches, 6), "epochs": plan["epochs"], "reason": reason,
               "ncb": len(plan["cb_returns"]), "progress": bool(logged), "clock": _sig_clock(ctx.faults),
               "y": plan["ykind"][:2], "prior": plan.get("prior_fits", 0), "warm": bool(plan.get("warm_start"))})
    if plan.get("prior_fits"):
        ctx.fault("refit_history", plan["prior_fits"])
    ctx.transition({"mode": "schedule", "reason": reason, "steps": min(len(slices), 12)})


def _make_torch_estimator(plan, callbacks, epochs, batch_size, max_iter):
    from fairlearn.adversarial import AdversarialFairnessClassifier, AdversarialFairnessRegressor
    from fairlearn.adversarial._adversarial_mitigation import _AdversarialFairness

    common = dict(backend="torch", predictor_model=_layers(plan.get("pm", [])), adversary_model=_layers(plan.get("am", [])),
                  predictor_optimizer=plan.get("opt", "SGD"), adversary_optimizer=plan.get("opt", "SGD"),
                  constraints=plan.get("constraints", "demographic_parity"), learning_rate=plan.get("lr", 0.1),
                  alpha=plan.get("alpha", 1.0), epochs=epochs, batch_size=batch_size, shuffle=False,
                  progress_updates=plan.get("progress_updates"), callbacks=callbacks, random_state=plan["rs"],
                  warm_start=bool(plan.get("warm_start", False)))
    if plan.get("public") and max_iter == -1:
        if plan["ykind"] == "cont":
            return AdversarialFairnessRegressor(**common)
        return AdversarialFairnessClassifier(**common)
    return _AdversarialFairness(max_iter=max_iter, **common)


def _layers(spec):
    """List model spec with fresh torch modules for the 'bn' / 'dropout' tokens (never shared between estimators)."""
    import torch

    out, width = [], None
    for item in spec:
        if isinstance(item, int):
            width = item
            out.append(item)
        elif item == "bn":
            out.append(torch.nn.BatchNorm1d(width))
        elif item == "dropout":
            out.append(torch.nn.Dropout(0.3))
        else:
            out.append(item)
    return out


def _nonfinite_model(est):
    import torch

    eng = getattr(est, "backendEngine_", None)
    if eng is None or not hasattr(eng, "predictor_model"):
        return False
    ps = list(eng.predictor_model.parameters()) + list(eng.adversary_model.parameters())
    return any(not bool(torch.isfinite(p).all()) for p in ps)


def _params(est):
    """Every tensor of both networks: parameters and buffers (e.g. BatchNorm running statistics)."""
    eng = est.backendEngine_
    return [v.detach().clone().float() for v in eng.predictor_model.state_dict().values()] + \
           [v.detach().clone().float() for v in eng.adversary_model.state_dict().values()]


def _exec_equiv(plan, ctx):
    import torch

    n = plan["n"]
    X, y, a = _data(plan, with_ids=False)
    Xq = np.array(plan["xq"], dtype=float)
    slices, cbs, reason = ref_schedule(n, plan["batch_size"], plan["epochs"], plan["max_iter"], plan["cb_returns"])
    if reason == "budget":
        ctx.fault("budget_stop")
    lo0, hi0 = slices[0]
    if not (_first_complete(y[lo0:hi0].tolist(), plan["ykind"]) and _first_complete(a[lo0:hi0].tolist(), plan["akind"])):
        # documented precondition of the partial_fit history: all classes in the first call
        ctx.trivial("precondition_first_slice_incomplete")
        return
    later_bad = any(not (_slice_ok(y[l:h].tolist(), plan["ykind"]) and _slice_ok(a[l:h].tolist(), plan["akind"]))
                    for l, h in slices[1:])
    if later_bad:
        ctx.probe("later_slice_incomplete")
    sigbase = {"later_slice_incomplete": bool(later_bad)}
    ctx.scratch["peek_X"] = Xq
    if "bn" in list(plan.get("pm", [])) + list(plan.get("am", [])) and plan.get("prior_fits") and not plan.get("warm_start"):
        # a BatchNorm *instance* in the list is a user-supplied, pre-initialised module: the documented rule is
        # that such modules are never discarded, so a re-initialising refit legitimately keeps its trained state
        ctx.trivial("stateful_module_instance_survives_reinit")
        return
    # estimator A: fit under the planned geometry / stop / clock
    A = _make_torch_estimator(plan, _callbacks(plan), plan["epochs"], plan["batch_size"], plan["max_iter"])
    prior = plan.get("prior_fits", 0)
    y_prior = y
    if plan.get("prior_ykind") and prior and not plan.get("warm_start"):
        y_prior = np.array(_layout(n, plan["prior_ykind"], plan["akind"])[0])
        ctx.fault("refit_after_other_target_kind")
    for _ in range(prior):
        with ctx.clock_installed():
            okp, retp, sitep = ctx.call(A.fit, X, y_prior, sensitive_features=a)
        ctx.ops += 1
        if not okp and _nonfinite_model(A):
            ctx.trivial("nan_model")
            return
        if not okp:
            ctx.fail("C17.equiv.fit_raised", f"earlier fit raised {type(retp).__name__}: {retp} at {sitep}",
                     dict(sigbase, exc=type(retp).__name__, site=sitep))
            return
        ctx.callback_log = []
    if prior:
        ctx.fault("refit_history", prior)
    with ctx.clock_installed():
        ok, ret, site = ctx.call(A.fit, X, y, sensitive_features=a)
    ctx.ops += 1
    if not ok:
        if _nonfinite_model(A):
            # numerical blow-up of the networks (C16 territory), not a schedule matter
            ctx.trivial("nan_model")
            return
        ctx.fail("C17.equiv.fit_raised", f"fit raised {type(ret).__name__}: {ret} at {site}",
                 dict(sigbase, exc=type(ret).__name__, site=site))
        return
    if ctx.callback_log != cbs:
        ctx.fail("C17.equiv.callbacks", f"callback invocations differ: expected {cbs[:10]} got {ctx.callback_log[:10]}")
    if A.n_iter_ != len(slices):
        ctx.fail("C17.equiv.n_iter", f"n_iter_={A.n_iter_} expected {len(slices)}")
    pa = _params(A)
    if _nonfinite_model(A):
        ctx.trivial("nan_model")
        return
    # estimator B: identically configured, same slices through partial_fit
    B = _make_torch_estimator(plan, None, plan["epochs"], plan["batch_size"], plan["max_iter"])
    ycls = _classes(plan["ykind"], y)
    # with warm_start=True every earlier fit trained the same networks on the same slices; with
    # warm_start=False each fit starts again from the (seeded) initialisation
    passes = (prior + 1) if plan.get("warm_start") else 1
    for j, (lo, hi) in enumerate(slices * passes):
        kw = {"sensitive_features": a[lo:hi]}
        if j == 0 and ycls is not None:
            order = plan.get("classes_order", "sorted")
            cl = list(ycls)
            if order == "reversed":
                cl = cl[::-1]
            elif order == "rotated":
                cl = cl[1:] + cl[:1]
            kw["classes"] = np.array(cl)  # "list of all the classes": the documentation fixes no order
        with ctx.clock_installed():
            ok, ret, site = ctx.call(B.partial_fit, X[lo:hi], y[lo:hi], **kw)
        ctx.ops += 1
        if ok and plan.get("b_peek") and j % 2 == 0:
            # a predict between two training steps must not change what the next step does
            ctx.call(B.predict, Xq)
            ctx.fault("predict_between_partial_fits")
        if not ok and _nonfinite_model(B):
            ctx.trivial("nan_model")
            return
        if not ok:
            known = ctx.fail("C17.equiv.partial_fit_raised",
                             f"partial_fit of slice {lo}:{hi} (step {j + 1}) raised {type(ret).__name__}: {ret} at {site}; "
                             f"fit handled the same slice",
                             dict(sigbase, exc=type(ret).__name__, site=site, first_slice=(j == 0),
                                  msg=str(ret)[:18],
                                  slice_incomplete=not (_slice_ok(y[lo:hi].tolist(), plan["ykind"])
                                                        and _slice_ok(a[lo:hi].tolist(), plan["akind"]))))
            ctx.event("equiv_abort", step=j + 1, known=known)
            ctx.state({"mode": "equiv", "reason": "pf_raised", "y": plan["ykind"][:2]})
            return
    pb = _params(B)
    if len(pa) != len(pb):
        ctx.fail("C17.equiv.shape", "parameter lists differ in length")
        return
    maxd = 0.0
    for p, q in zip(pa, pb):
        if p.shape != q.shape:
            ctx.fail("C17.equiv.shape", f"parameter shapes differ {tuple(p.shape)} vs {tuple(q.shape)}")
            return
        if p.numel():
            maxd = max(maxd, float((p - q).abs().max()))
    if not (maxd <= 1e-6):
        ctx.fail("C17.equiv.params", f"fit vs partial_fit parameters differ: max|d|={maxd:.3e} over {len(slices)} steps "
                 f"(n={n}, batch_size={plan['batch_size']}, epochs={plan['epochs']}, max_iter={plan['max_iter']}, stop={reason}, "
                 f"earlier fits={prior}, warm_start={bool(plan.get('warm_start'))})")
    if maxd > 0:
        ctx.probe("equiv_not_bit_exact")
    ra, rb = A._raw_predict(Xq), B._raw_predict(Xq)
    if not (np.isfinite(ra).all() and np.isfinite(rb).all()):
        # finite parameters but an overflowing forward pass: numerical blow-up, not a schedule matter
        ctx.trivial("nan_model")
        return
    if not np.allclose(ra, rb, atol=1e-6, rtol=0):
        ctx.fail("C17.equiv.raw_predict", "_raw_predict differs between fit and partial_fit histories")
    _check_label_space(ctx, A, Xq, plan["ykind"], y, "equiv")
    _check_label_space(ctx, B, Xq, plan["ykind"], y, "equiv")
    okA, predA, _ = ctx.call(A.predict, Xq)
    okB, predB, _ = ctx.call(B.predict, Xq)
    if okA and okB and np.allclose(ra, rb, atol=1e-6, rtol=0) and not np.array_equal(np.asarray(predA), np.asarray(predB)):
        ctx.fail("C17.equiv.predict", "predict differs between the fit history and the equivalent partial_fit history "
                 f"although the raw outputs agree (classes passed to partial_fit in {plan.get('classes_order', 'sorted')} order)")
    for tok in ("bn", "dropout"):
        if tok in plan.get("pm", []):
            ctx.probe(f"layer_{tok}")
    ctx.event("equiv_done", steps=len(slices), maxd=maxd, raw=ra)
    bs = n if plan["batch_size"] == -1 else plan["batch_size"]
    ctx.state({"mode": "equiv", "batches": min(ceil(n / bs), 6), "epochs": plan["epochs"], "reason": reason,
               "ncb": len(plan["cb_returns"]), "clock": _sig_clock(ctx.faults), "y": plan["ykind"][:2],
               "opt": plan["opt"], "eo": plan["constraints"][0], "prior": prior, "warm": bool(plan.get("warm_start"))})
    ctx.transition({"mode": "equiv", "reason": reason, "steps": min(len(slices), 12)})


def _check_label_space(ctx, est, Xq, ykind, y_train, tag):
    ok, pred, site = ctx.call(est.predict, Xq)
    if not ok:
        ctx.fail(f"C17.{tag}.predict_raised", f"predict raised {type(pred).__name__}: {pred} at {site}",
                 {"exc": type(pred).__name__, "site": site})
        return
    raw = np.asarray(est._raw_predict(Xq), dtype=float)
    if not np.isfinite(raw).all():
        ctx.probe("non_finite_raw_output")
        return
    pred = np.asarray(pred)
    classes = _classes(ykind, y_train)
    if classes is None:
        if not np.array_equal(pred.reshape(-1), raw.reshape(-1)):
            ctx.fail("C17.labels.regression", "regressor predict is not the raw output")
        return
    train = set(np.asarray(y_train).tolist())
    bad = [p for p in pred.tolist() if p not in train]
    if bad or len(pred) != len(Xq):
        ctx.fail("C17.labels.label_space", f"predict returned {bad[:4]} outside the training label set {sorted(train)}")
        return
    if len(classes) == 2:
        for i in range(len(Xq)):
            want = classes[1] if raw[i, 0] >= 0.5 else classes[0]
            if pred[i] != want:
                ctx.fail("C17.labels.binary_threshold",
                         f"raw output {raw[i, 0]!r} mapped to {pred[i]!r}, expected {want!r} (positive iff raw >= 0.5)")
                return
            if raw[i, 0] == 0.5:
                ctx.probe("binary_boundary_exact")
    else:
        for i in range(len(Xq)):
            mx = raw[i].max()
            argmaxes = {classes[j] for j in range(len(classes)) if raw[i, j] == mx}
            if len(argmaxes) > 1:
                ctx.probe("argmax_tie")
            if pred[i] not in argmaxes:
                ctx.fail("C17.labels.argmax", f"raw {raw[i].tolist()} mapped to {pred[i]!r}, arg-max classes {sorted(argmaxes)}")
                return


def _exec_labels(plan, ctx):
    from fairlearn.adversarial import AdversarialFairnessClassifier, AdversarialFairnessRegressor
    from fairlearn.adversarial._adversarial_mitigation import _AdversarialFairness

    stub = plan["engine"] == "stub"
    X, y, a = _data(plan, with_ids=stub)
    nq = plan["nq"]
    if stub:
        Xq = np.array([[float(1000 + i)] + list(plan["xq"][i]) for i in range(nq)], dtype=float)
        ctx.eval_table = {str(1000 + i): plan["raws"][i] for i in range(nq)}
        est = _AdversarialFairness(backend=seams.stub_engine_class(), epochs=1, batch_size=plan["batch_size"],
                                   shuffle=False, random_state=1,
                                   y_transform=None if plan["ykind"] == "cont" else "auto")
    else:
        Xq = np.array(plan["xq"], dtype=float)
        kw = dict(backend="torch", predictor_model=[3, "sigmoid"], adversary_model=[], predictor_optimizer="SGD",
                  adversary_optimizer="SGD", learning_rate=plan["lr"], epochs=plan["epochs"],
                  batch_size=plan["batch_size"], shuffle=False, random_state=plan["rs"])
        if plan["ykind"] == "cont":
            est = AdversarialFairnessRegressor(**kw)
        elif plan["public"]:
            est = AdversarialFairnessClassifier(**kw)
        else:
            est = _AdversarialFairness(**kw)
    with ctx.clock_installed():
        ok, ret, site = ctx.call(est.fit, X, y, sensitive_features=a)
    ctx.ops += 1
    if not ok and not stub and _nonfinite_model(est):
        ctx.trivial("nan_model")
        return
    if not ok:
        ctx.fail("C17.labels.fit_raised", f"fit raised {type(ret).__name__}: {ret} at {site}",
                 {"exc": type(ret).__name__, "site": site})
        return
    if not stub:
        import torch

        if any(bool(torch.isnan(p).any()) for p in _params(est)):
            ctx.trivial("nan_model")
            return
    _check_label_space(ctx, est, Xq, plan["ykind"], y, "labels")
    ctx.ops += 1
    ctx.event("labels_done", pred=np.asarray(est.predict(Xq)).tolist())
    ctx.state({"mode": "labels", "engine": plan["engine"], "y": plan["ykind"],
               "boundary": bool(ctx.probes.get("binary_boundary_exact")), "tie": bool(ctx.probes.get("argmax_tie"))})
    ctx.transition({"mode": "labels", "engine": plan["engine"], "y": plan["ykind"]})
    if stub:
        ctx.fault("planned_raw_output", nq)


# --------------------------------------------------------------------------
# shrinking


def _simpler(cur, prefs):
    """Values strictly earlier than ``cur`` in the preference order (all, if cur is not listed)."""
    return prefs[:prefs.index(cur)] if cur in prefs else list(prefs)


def shrink_candidates(plan):
    p = plan
    mode = p["mode"]

    def mod(**kw):
        q = copy.deepcopy(p)
        q.update(kw)
        return q

    if mode in ("schedule", "equiv"):
        if p.get("prior_ykind"):
            yield mod(prior_ykind=None)
        if p.get("prior_fits"):
            yield mod(prior_fits=0)
            if p["prior_fits"] > 1:
                yield mod(prior_fits=1)
        if p.get("warm_start"):
            yield mod(warm_start=False)
        if p.get("clock"):
            yield mod(clock=[])
        if p.get("progress_updates") is not None:
            yield mod(progress_updates=None)
        if p["cb_returns"]:
            yield mod(cb_returns=[])
            if len(p["cb_returns"]) > 1:
                for k in range(len(p["cb_returns"])):
                    yield mod(cb_returns=[r for j, r in enumerate(p["cb_returns"]) if j != k])
            for k, r in enumerate(p["cb_returns"]):
                slim = {s: v for s, v in r.items() if v is True}
                if slim != r:
                    q = copy.deepcopy(p)
                    q["cb_returns"][k] = slim
                    yield q
        for n in sorted({4, 5, 6, 8, p["n"] // 2, p["n"] - 1}):
            if 4 <= n < p["n"]:
                yield mod(n=n, batch_size=(n if p["batch_size"] == p["n"] else p["batch_size"]))
        for ep in _simpler(p["epochs"], [1, 2, 3, -1]):
            if not (ep == -1 and p["max_iter"] == -1):
                yield mod(epochs=ep)
        for mi in _simpler(p["max_iter"], [-1, 1, 2, 3, 5, 9, 30, 100]):
            if not (mi == -1 and p["epochs"] == -1):
                yield mod(max_iter=mi)
        for bs in _simpler(p["batch_size"], [-1, 1, 2, 3, 5, 7, 8, 12]):
            yield mod(batch_size=bs)
        if p["ykind"] != "bin_int":
            yield mod(ykind="bin_int")
        if p["akind"] != "bin_int":
            yield mod(akind="bin_int")
        if p.get("d", 1) > 1:
            yield mod(d=1, xs=[r[:1] for r in p["xs"]], xq=[r[:1] for r in p.get("xq", [])])
        if mode == "equiv":
            if any(p.get("cb_peek") or []):
                yield mod(cb_peek=[])
            if p.get("b_peek"):
                yield mod(b_peek=False)
            if p.get("classes_order", "sorted") != "sorted":
                yield mod(classes_order="sorted")
            if any(t in ("bn", "dropout") for t in p["pm"]):
                yield mod(pm=[t for t in p["pm"] if t not in ("bn", "dropout")])
            if p["pm"]:
                yield mod(pm=[])
            if p["am"]:
                yield mod(am=[])
            if p["opt"] != "SGD":
                yield mod(opt="SGD")
            if p["alpha"] != 1.0:
                yield mod(alpha=1.0)
            if p["constraints"] != "demographic_parity":
                yield mod(constraints="demographic_parity")
            if p.get("public"):
                yield mod(public=False)
    else:
        if p["nq"] > 1:
            for k in range(p["nq"]):
                yield mod(nq=p["nq"] - 1, xq=[r for j, r in enumerate(p["xq"]) if j != k],
                          raws=[r for j, r in enumerate(p["raws"]) if j != k])
        if p["n"] > 8:
            yield mod(n=8)
        if p.get("clock"):
            yield mod(clock=[])
