"""C08 - ExponentiatedGradient's certificate (best_gap_) is sound.

Real: ExponentiatedGradient.fit, _Lagrangian, moments, scipy linprog.
Stub: the oracle (exact learner over an enumerated class; ties decided by the plan), the clock.
Reference: refmodels.ParityRef / ClassRef (first-principles gamma, brute-force min over H, LP optimum).
"""

from __future__ import annotations

import copy
import random

import numpy as np
import pandas as pd

from sim import kernel, seams, refmodels
from sim.kernel import HarnessError

PROPERTY = "C08"
TOL = 1e-6

TIERS = {
    "quick": {"runs": 900, "wall_cap_s": 75, "det_seeds": 16},
    "thorough": {"runs": 36000, "wall_cap_s": 800, "det_seeds": 128, "det_extra_workers": 4},
}

RULE = (
    "one case = one seeded plan (8-40 rows over a discrete feature with 2-5 values and 2-3 groups biased towards "
    "balanced cells, a parity moment with difference or ratio bound, eps, max_iter, run_linprog_step, eta0, nu, a "
    "tie-break bit per oracle tie, a clock decision per time() read) run through the real ExponentiatedGradient.fit "
    "against an exact enumerating oracle; non-trivial = fit completed and >=1 simulator-owned decision was consumed "
    "(oracle tie-break, clock read, budget stop); distinct = distinct signatures (moment, bound kind, LP flag, stop "
    "reason in {budget, converged}, #oracle calls bucket, #ties bucket, which lambda-hat certified the gap)."
)
COMPONENTS = {
    "real": ["ExponentiatedGradient.fit", "_Lagrangian (best_h, eval_gap, solve_linprog, _call_oracle)",
             "DemographicParity/TruePositiveRateParity/FalsePositiveRateParity/EqualizedOdds/ErrorRateParity, ErrorRate",
             "scipy.optimize.linprog (highs-ds)", "sklearn.clone, DummyClassifier"],
    "stub": ["estimator -> ExactClassifier (exact weighted 0/1 minimiser over all functions of one discrete feature; "
             "ties decided by the plan)", "time() in _lagrangian -> SimClock"],
}
ASSUMPTIONS = [
    "oracle is exact over the enumerated class (<=32 hypotheses); ties |cost0-cost1| <= 1e-12 are its freedom",
    "reference gamma/error/LP written from the property text; HiGHS trusted for the reference LP",
    "tolerance 1e-6 (the repo accepts a hypothesis only if it improves by 1e-8; HiGHS ~1e-9)",
    "early-stop clause is gating only when nu was requested explicitly",
]

MOMENTS = ["DP", "TPR", "FPR", "EO", "ERP"]


def make_moment(kind, bound_kind, bound, ratio):
    from fairlearn.reductions import (DemographicParity, TruePositiveRateParity, FalsePositiveRateParity,
                                      EqualizedOdds, ErrorRateParity)

    cls = {"DP": DemographicParity, "TPR": TruePositiveRateParity, "FPR": FalsePositiveRateParity,
           "EO": EqualizedOdds, "ERP": ErrorRateParity}[kind]
    if bound_kind == "diff":
        return cls(difference_bound=bound)
    return cls(ratio_bound=ratio, ratio_bound_slack=bound)


def gen_dataset(rng, nvals=None, ngroups=None, nmin=8, nmax=40, need_both_labels_per_group=False):
    """Rows (x, g, y); cells biased towards balance so that oracle ties occur."""
    k = nvals or rng.randint(2, 5)
    m = ngroups or rng.randint(2, 3)
    target = rng.randint(nmin, nmax)
    rows = []
    vals = list(range(k))
    # guarantee every group and every value occurs
    for attempt in range(50):
        rows = []
        per = max(1, target // (k * m))
        for v in vals:
            balanced = rng.random() < 0.5
            for g in range(m):
                c = rng.randint(0, 2 * per)
                if balanced:
                    n1 = c // 2
                    n0 = c - n1 if rng.random() < 0.3 else n1
                else:
                    n1 = rng.randint(0, c)
                    n0 = c - n1
                rows += [(v, g, 1)] * n1 + [(v, g, 0)] * n0
        if len(rows) > nmax:
            rng.shuffle(rows)
            rows = rows[:nmax]
        ys = {r[2] for r in rows}
        gs = {r[1] for r in rows}
        vs = {r[0] for r in rows}
        ok = len(rows) >= nmin and ys == {0, 1} and len(gs) == m and len(vs) >= 2
        if ok and need_both_labels_per_group:
            ok = all({r[2] for r in rows if r[1] == g} == {0, 1} for g in gs)
        if ok:
            break
    else:
        rows = [(i % 2, i % m, (i // 2) % 2) for i in range(max(nmin, 4 * m))]
    rng.shuffle(rows)
    return rows


def derive_rows(rng, rows):
    """Same feature rows, other labels and/or another grouping (a second audit of the same X)."""
    groups = sorted({r[1] for r in rows})
    for _ in range(50):
        mode = rng.choice(["groups", "labels", "both"])
        new = []
        for (x, g, y) in rows:
            if mode in ("groups", "both") and rng.random() < 0.5:
                g = rng.choice(groups)
            if mode in ("labels", "both") and rng.random() < 0.3:
                y = 1 - y
            new.append((x, g, y))
        if len({r[1] for r in new}) >= 2 and {r[2] for r in new} == {0, 1} and new != list(rows):
            return new
    return None


def gen_plan(seed, index, tier):
    rng = random.Random(seed)
    rows = gen_dataset(rng)
    kind = MOMENTS[index % 5] if index < 40 else rng.choice(MOMENTS)
    bound_kind = rng.choice(["diff", "ratio"])
    plan = {
        "v": 1, "rows": rows, "moment": kind, "bound_kind": bound_kind,
        "bound": rng.choice([0.0, 0.01, 0.05, 0.1]) if bound_kind == "diff" else rng.choice([0.0, 0.01, 0.05, 0.1, 0.2]),
        "ratio": 1.0 if bound_kind == "diff" else rng.choice([0.5, 0.8, 0.9, 1.0]),
        "eps": rng.choice([0.01, 0.05, 0.1, 0.2]),
        "max_iter": rng.choice([1, 2, 3, 5, 7, 10, 20, 30]),
        "lp": rng.random() < 0.5,
        "eta0": rng.choice([0.5, 2.0, 5.0]),
        "nu": rng.choice([None, 0.0, 1e-3, 0.05, 0.2]),  # 0.0 = never stop early (a gap is never negative)
        "xform": rng.choice(["df", "nd", "df2"]),
        "ties": [rng.randint(0, 1) for _ in range(400)],
        "clock": [[rng.choice(["fwd", "fwd", "back", "stall"]), rng.choice([1e-3, 1.0, 100.0, 1e6])] for _ in range(80)],
        "stall_rerun": rng.random() < 0.25,
        # containers at the seam (rows are matched by position, whatever the index labels say)
        "yform": rng.choice(["nd", "nd", "list", "series"]), "gform": rng.choice(["nd", "nd", "list", "series"]),
        "scramble_index": rng.random() < 0.4,
    }
    # ambient process state: another caller fitted an independent estimator (own moment, own learner) on a
    # row-permuted copy of the same data earlier in this process
    plan["twin_perm"] = rng.sample(range(len(rows)), len(rows)) if (index >= 40 and rng.random() < 0.2) else None
    # history: an earlier fit of the same estimator object on the same X with other labels/groups
    plan["prior_rows"] = derive_rows(rng, rows) if (index >= 40 and rng.random() < 0.2) else None
    if index >= 40 and rng.random() < 0.05:
        # labels aligned with two equally sized groups: an exact LP vertex can cancel every signed weight
        half = rng.randint(2, 6)
        rows = [(rng.randint(0, 1), 0, 1) for _ in range(half)] + [(rng.randint(0, 1), 1, 0) for _ in range(half)]
        if len({r[0] for r in rows}) < 2:
            rows[0] = (1 - rows[0][0], rows[0][1], rows[0][2])
        rng.shuffle(rows)
        plan.update(rows=rows, moment=rng.choice(["DP", "DP", "EO", "ERP"]), bound_kind="diff", ratio=1.0, lp=True,
                    max_iter=rng.choice([3, 5, 7, 10]), prior_rows=None, twin_perm=None, aligned=True)
    return plan


def build_X(plan):
    rows = plan["rows"]
    x = [float(r[0]) for r in rows]
    if plan["xform"] == "nd":
        return np.array(x).reshape(-1, 1)
    idx = _labels(plan, len(x), 1)
    if plan["xform"] == "df2":
        return pd.DataFrame({"x": x, "noise": [float((i * 7) % 3) for i in range(len(x))]}, index=idx)
    return pd.DataFrame({"x": x}, index=idx)


def _labels(plan, n, salt):
    """Index labels for pandas containers: default, or a scrambled permutation (rows are matched by position)."""
    if not plan.get("scramble_index"):
        return None
    return [(i * 7 + 3 * salt) % n if np.gcd(7, n) == 1 else (n - 1 - i) for i in range(n)]


def wrap(plan, values, kind, salt):
    """Hand labels / sensitive features over as ndarray, list or pandas Series with scrambled index labels."""
    form = plan.get(kind, "nd")
    if form == "list":
        return list(values.tolist())
    if form == "series":
        return pd.Series(values, index=_labels(plan, len(values), salt))
    return values


def index_key(t):
    return (str(t[0]), str(t[1]), str(t[2]))


def series_to_lam(s):
    return {index_key(i): float(v) for i, v in s.items()}


def fit_once(plan, ctx, stall=False):
    from fairlearn.reductions import ExponentiatedGradient

    rows = plan["rows"]
    X = build_X(plan)
    y = np.array([r[2] for r in rows])
    g = np.array([f"g{r[1]}" for r in rows])
    mom = make_moment(plan["moment"], plan["bound_kind"], plan["bound"], plan["ratio"])
    eg = ExponentiatedGradient(seams.ExactClassifier(col=0, log_payload=False), mom, eps=plan["eps"],
                               max_iter=plan["max_iter"], nu=plan["nu"], eta0=plan["eta0"],
                               run_linprog_step=plan["lp"])
    ctx.ties.pos = 0
    ctx.clock.dl.pos = 0
    ctx.clock.force_stall = stall
    if plan.get("twin_perm") and len(plan["twin_perm"]) == len(rows):
        pr = [rows[i] for i in plan["twin_perm"]]
        twin = ExponentiatedGradient(seams.ExactClassifier(col=0, log_payload=False),
                                     make_moment(plan["moment"], plan["bound_kind"], plan["bound"], plan["ratio"]),
                                     eps=plan["eps"], max_iter=2, nu=plan["nu"], eta0=plan["eta0"], run_linprog_step=plan["lp"])
        with ctx.clock_installed():
            ctx.call(twin.fit, pd.DataFrame({"x": [float(r[0]) for r in pr]}), np.array([r[2] for r in pr]),
                     sensitive_features=np.array([f"g{r[1]}" for r in pr]))
        ctx.fault("interleaved_second_instance")
        ctx.ties.pos = 0
    if plan.get("prior_rows"):
        pr = plan["prior_rows"]
        with ctx.clock_installed():
            okp, retp, sitep = ctx.call(eg.fit, X, np.array([r[2] for r in pr]),
                                        sensitive_features=np.array([f"g{r[1]}" for r in pr]))
        if not okp:
            ctx.clock.force_stall = False
            return okp, retp, sitep, eg, X, y, g
        ctx.fault("refit_history")
        if plan["nu"] is None:
            eg.nu = None  # keep recorded finding F-C19-2 (nu overwritten by fit) out of this check
    with ctx.clock_installed():
        ok, ret, site = ctx.call(eg.fit, X, wrap(plan, y, "yform", 2), sensitive_features=wrap(plan, g, "gform", 3))
    ctx.clock.force_stall = False
    return ok, ret, site, eg, X, y, g


def execute(plan, ctx):
    ok, ret, site, eg, X, y, g = fit_once(plan, ctx)
    ctx.ops += 1
    if not ok:
        ctx.fail("C08.fit_raised", f"fit raised {type(ret).__name__}: {ret} at {site}",
                 {"exc": type(ret).__name__, "site": site})
        return
    rows = plan["rows"]
    mom = refmodels.ParityRef(plan["moment"], y, g, ratio=plan["ratio"], bound=plan["bound"])
    H = refmodels.ClassRef(mom, [r[0] for r in rows])
    B = 1.0 / plan["eps"]
    gap = float(eg.best_gap_)
    # --- 1. weights_ is a probability vector over predictors_, every predictor in H
    w = eg.weights_
    if (w < -1e-12).any() or abs(float(w.sum()) - 1.0) > 1e-9:
        ctx.fail("C08.weights", f"weights_ is not a probability vector: sum={float(w.sum())!r} min={float(w.min())!r}")
        return
    if sorted(w.index) != list(range(len(eg.predictors_))):
        ctx.fail("C08.weights", "weights_ index does not enumerate predictors_")
        return
    preds = {}
    Hset = {tuple(p) for p in H.P.tolist()}
    for t in w.index:
        p = np.asarray(eg.predictors_[t].predict(X), dtype=float).reshape(-1)
        preds[t] = p
        if tuple(p.tolist()) not in Hset:
            ctx.fail("C08.support", f"predictor {t} is not a member of the hypothesis class")
            return
    err_q = sum(float(w[t]) * mom.error(preds[t]) for t in w.index)
    gam_q = sum(float(w[t]) * mom.gamma_vec(preds[t]) for t in w.index)
    # --- repo constraint index must be the reference's (else: harness inconsistency)
    repo_ids = {index_key(i) for i in eg.lambda_vecs_EG_.index}
    if repo_ids != set(mom.ids):
        if {(i[0], i[2]) for i in repo_ids} != {(i[0], i[2]) for i in mom.ids} or \
                {i[1] for i in repo_ids} == {i[1] for i in mom.ids}:
            # (same event names, so this is no naming difference: constraints exist for (event, group) pairs that
            # do not occur in the fitted data, or are missing for pairs that do)
            # the multipliers are not indexed by the groups of the data that was fitted
            ctx.fail("C08.constraint_groups", f"multipliers are indexed by {sorted(repo_ids)} but the fitted data has the "
                     f"(event, group) pairs {sorted(mom.ids)}")
            return
        raise HarnessError(f"constraint index mismatch: repo {sorted(repo_ids)} vs reference {sorted(mom.ids)}")
    # --- 2. certificate
    bi = int(eg.best_iter_)
    cands = {}
    cands["EG"] = series_to_lam(eg.lambda_vecs_EG_.loc[:, list(range(bi + 1))].mean(axis=1))
    if bi in getattr(eg, "lambda_vecs_LP_", pd.DataFrame()).columns:
        cands["LP"] = series_to_lam(eg.lambda_vecs_LP_[bi])
    viol = float(np.max(gam_q - mom.bound))
    L_high = err_q + B * max(0.0, viol)
    certified = None
    true_gaps = {}
    for name, lam in cands.items():
        lam_p = mom.project(lam)
        lv = H.lam_vec(lam_p)
        if (lv < -1e-9).any() or lv.sum() > B + 1e-6:
            true_gaps[name] = float("inf")
            continue
        L = refmodels.lagrangian(err_q, gam_q, lv, mom.bound)
        tg = max(L - H.min_L(lam_p), L_high - L)
        true_gaps[name] = tg
        if tg <= gap + TOL and certified is None:
            certified = name
    if certified is None:
        ctx.fail("C08.certificate",
                 f"best_gap_={gap:.9g} is smaller than the true duality gap of (Q, lambda-hat) for every recorded "
                 f"multiplier of iteration {bi}: {true_gaps} (moment={plan['moment']} {plan['bound_kind']} "
                 f"bound={plan['bound']} ratio={plan['ratio']} eps={plan['eps']} max_iter={plan['max_iter']} lp={plan['lp']})")
    # --- 3. consequences against the true constrained optimum
    opt = H.constrained_opt()
    if opt is None:
        ctx.probe("infeasible_reference")
    else:
        if err_q > opt + 2 * gap + TOL:
            ctx.fail("C08.error_bound", f"error(Q)={err_q:.9g} > OPT={opt:.9g} + 2*gap={2 * gap:.9g}")
        if viol > (1 + 2 * gap) / B + TOL:
            ctx.fail("C08.violation_bound", f"max constraint excess {viol:.9g} > (1+2g)/B={(1 + 2 * gap) / B:.9g}")
    # --- 4. early stop implies gap below the requested nu
    stopped_early = int(eg.last_iter_) < plan["max_iter"] - 1
    if stopped_early:
        if plan["nu"] is not None:
            if not gap < plan["nu"]:
                ctx.fail("C08.early_stop", f"stopped at iteration {eg.last_iter_} < max_iter-1 with best_gap_={gap} >= nu={plan['nu']}")
        else:
            ctx.probe("early_stop_auto_nu")
    else:
        ctx.fault("budget_stop")
    if not (0 <= bi <= int(eg.last_iter_) < plan["max_iter"]):
        ctx.fail("C08.iterations", f"best_iter_={bi} last_iter_={eg.last_iter_} max_iter={plan['max_iter']}")
    # --- 5. clock indifference
    if plan.get("stall_rerun"):
        ok2, ret2, _s, eg2, *_ = fit_once(plan, ctx, stall=True)
        same = ok2 and float(eg2.best_gap_) == gap and int(eg2.best_iter_) == bi and \
            eg2.weights_.sort_index().equals(eg.weights_.sort_index())
        if not same:
            ctx.fail("C08.clock_dependence", "weights_/best_gap_/best_iter_ differ under an all-stall clock")
    # reach probes: the rare conditions under which bookkeeping slips become visible
    if plan.get("aligned"):
        ctx.probe("labels_aligned_with_groups")
    if int(getattr(eg, "n_oracle_calls_dummy_returned_", 0)) > 0:
        ctx.probe("oracle_call_with_constant_relabelling")
    if bi != int(eg.last_iter_):
        ctx.probe("best_iter_before_last_iter")
    if list(w.index) != sorted(w.index):
        ctx.probe("weights_index_unsorted")
    if certified == "EG" and "LP" in cands:
        ctx.probe("eg_iterate_certified_although_lp_ran")
    if (w == 0).any():
        ctx.probe("zero_weight_predictor")
    ties = ctx.faults.get("oracle_tiebreak", 0)
    ctx.event("eg_done", gap=gap, best_iter=bi, last_iter=int(eg.last_iter_), n_pred=len(eg.predictors_),
              weights=[float(w[t]) for t in sorted(w.index)], err=err_q, viol=viol, calls=int(eg.n_oracle_calls_))
    ctx.state({"m": plan["moment"], "b": plan["bound_kind"], "lp": plan["lp"], "stop": "conv" if stopped_early else "budget",
               "calls": min(int(eg.n_oracle_calls_) // 8, 6), "ties": min(ties // 4, 4), "cert": certified,
               "refit": bool(plan.get("prior_rows"))})
    ctx.transition({"m": plan["moment"], "stop": "conv" if stopped_early else "budget", "cert": certified})


def shrink_candidates(plan):
    p = plan

    def mod(**kw):
        q = copy.deepcopy(p)
        q.update(kw)
        return q

    rows = p["rows"]
    if p.get("prior_rows"):
        yield mod(prior_rows=None)
    if p.get("twin_perm"):
        yield mod(twin_perm=None)
    if p.get("clock"):
        yield mod(clock=[])
    if p.get("stall_rerun"):
        yield mod(stall_rerun=False)
    if any(p["ties"]):
        yield mod(ties=[])
    n = len(rows)
    if p.get("prior_rows") or p.get("twin_perm"):
        n = 0  # keep the two row lists aligned: do not drop rows while an earlier fit is part of the plan
    # drop chunks of rows, then single rows
    for size in (n // 2, n // 4, 2, 1):
        if size < 1:
            continue
        for s in range(0, n, size):
            cand = rows[:s] + rows[s + size:]
            if len(cand) >= 4 and {r[2] for r in cand} == {0, 1} and len({r[1] for r in cand}) >= 2:
                yield mod(rows=cand)
    # merge feature values / groups
    vals = sorted({r[0] for r in rows})
    if len(vals) > 2:
        yield mod(rows=[(min(r[0], vals[-2]), r[1], r[2]) for r in rows])
    grps = sorted({r[1] for r in rows})
    if len(grps) > 2:
        yield mod(rows=[(r[0], min(r[1], grps[-2]), r[2]) for r in rows])
    for mi in [m for m in (1, 2, 3, 5, 7, 10, 20) if m < p["max_iter"]]:
        yield mod(max_iter=mi)
    if p["xform"] != "df":
        yield mod(xform="df")
    if p.get("scramble_index"):
        yield mod(scramble_index=False)
    if p.get("yform", "nd") != "nd":
        yield mod(yform="nd")
    if p.get("gform", "nd") != "nd":
        yield mod(gform="nd")
    if p["eta0"] != 2.0:
        yield mod(eta0=2.0)
    if p["nu"] is not None and p["nu"] != 1e-3:
        yield mod(nu=1e-3)
    if p["bound_kind"] == "ratio":
        yield mod(bound_kind="diff", ratio=1.0)
    if p["moment"] != "DP":
        yield mod(moment="DP")
    if p["lp"]:
        yield mod(lp=False)
